"""C04 — the visitor callback stream is a well-formed, complete traversal."""
import json

import canon
import gen_prog
import impl
import pcommon
from cxxheaderparser.simple import parse_string, SimpleCxxVisitor
from cxxheaderparser.errors import CxxParseError

TECHNIQUE = 'Lean 4: simulation proofs over all client programs (nest_sim: nesting/identities/parents; fault_sim: a raising callback at any position truncates the stream and is the chained cause), instantiated at the parser model; model tied by correspondence on full event streams with fault injection'
LEAN_TARGET = "CxxModel.Props.C04"
THEOREMS = ["Cxx.C04_well_nested", "Cxx.C04_parse_start_first", "Cxx.C04_fault_truncates", "Cxx.C04_fault_cause",
            "Cxx.C04_parser_well_nested", "Cxx.C04_parser_fault", "Cxx.fault_sim", "Cxx.nest_sim", "Cxx.interp_extends", "Cxx.C04_each_payload_stored_once", "Cxx.C04_block_end", "Cxx.C04_toplevel_block_end",
    "Cxx.C04_namespace_block",
    "Cxx.C04_extern_block",
    "Cxx.C04_whole_source_fault"]
ANCHORS = ["parser.py:CxxParser._setup_state", "parser.py:CxxParser._pop_state", "parser.py:CxxParser.parse", "parser.py:CxxParser.__init__",
           "parser.py:CxxParser._on_block_end", "parser.py:CxxParser._parse_namespace", "parser.py:CxxParser._parse_extern", "parser.py:CxxParser._parse_class_decl",
           "parser.py:CxxParser._consume_balanced_tokens", "parser.py:CxxParser._consume_value_until", "parser.py:CxxParser._discard_contents",
           "parserstate.py:", "visitor.py:", "simple.py:"]
RULE = ("histories of generated programs, class programs, the test corpus and mutated inputs; for each history the monitor "
        "(nesting, identities, parents, kinds per signature) runs on the implementation's stream, and a callback is made to raise "
        "at every position (quick: a sample of positions); non-trivial = history with at least one block")
CARRIED_BY = {
    "whole sources under a visitor that raises: for a source that is an Item, the run in which the i-th delivered callback raises delivers exactly the first i+1 callbacks of on_parse_start followed by the item's callbacks and fails with that exception": "theorem C04_whole_source_fault (composition of parse_source with the generic fault theorem and the history-growth theorem interp_extends)",
    'block callbacks are paired around their contents for the same block, to any nesting depth: `namespace N { body }` and `extern "L" { body }`, body ANY item (so further blocks to any depth, sequences of any length), from any state at non-class scope with an active visitor: one start callback for a fresh block that is a child of the enclosing block, the body\'s callbacks inside THAT block, one end callback for the same block, and the block stack afterwards is exactly what it was': 'theorems C04_namespace_block (Item.ns.sound), C04_extern_block (Item.externBlock.sound) — Theorems/ItemKinds.lean over Items.lean; class blocks: C03_class_source',
    "`}` closing a namespace / extern block ends exactly the innermost open block (its own state id, parent = enclosing block), pops exactly it and restores the visitor in force before it": "theorems C04_block_end (Theorems/BlockEnd.lean), C04_toplevel_block_end (through one iteration of the parse loop)",
    "nesting, identities, parents, completeness of ends": "theorem C04_well_nested / nest_sim (any client, any input)",
    "a raising callback: nothing further delivered, failure chained to it": "theorems C04_fault_truncates / fault_sim, C04_fault_cause (any client, any position)",
    "each payload stored once: every item callback adds exactly one object, block callbacks none": "theorem C04_each_payload_stored_once (FoldCount.lean)",
    "simple API result = fold of the stream": "model of SimpleCxxVisitor (SimpleFold.lean) + correspondence `simple` (parse_string vs fold of the model's stream); C01_fold_append",
    "each callback carries a state of the kind its signature declares": "oracle `monitor` on the implementation (not proof)",
}
ASSUMPTIONS = ["`raises` means an Exception subclass (BaseException is not wrapped by parse())",
               "on_parse_start is delivered from the constructor; a fault there propagates unwrapped (position 0 excluded)"]
MODEL_COVERAGE = "state stack + visitor swap (Interp.lean), SimpleCxxVisitor (SimpleFold.lean), whole parser model as client"

KIND_OF = {
    "on_parse_start": {"ns"}, "on_pragma": {"ns", "ext", "cls"}, "on_include": {"ns", "ext", "cls"},
    "on_extern_block_start": {"ext"}, "on_extern_block_end": {"ext"}, "on_namespace_start": {"ns"}, "on_namespace_end": {"ns"},
    "on_concept": {"ns", "ext"}, "on_namespace_alias": {"ns", "ext"}, "on_forward_decl": {"ns", "ext", "cls"},
    "on_template_inst": {"ns", "ext", "cls"}, "on_variable": {"ns", "ext", "cls"}, "on_function": {"ns", "ext"},
    "on_method_impl": {"ns", "ext"}, "on_typedef": {"ns", "ext", "cls"}, "on_using_namespace": {"ns", "ext"},
    "on_using_alias": {"ns", "ext", "cls"}, "on_using_declaration": {"ns", "ext", "cls"}, "on_enum": {"ns", "ext", "cls"},
    "on_class_start": {"cls"}, "on_class_field": {"cls"}, "on_class_method": {"cls"}, "on_class_friend": {"cls"},
    "on_class_end": {"cls"}, "on_deduction_guide": {"ns", "ext"},
}


def monitor(events, completed, declined=()):
    """independent protocol monitor; returns None or a description of the violation.
    `declined`: names of blocks whose start callback returned False: such a block is closed
    for the visitor at once (nothing carrying its state, no end callback)"""
    if not events:
        return "no callback at all"
    if events[0]["cb"] != "on_parse_start":
        return "first callback is %s" % events[0]["cb"]
    stack = []
    for i, ev in enumerate(events):
        cb = ev["cb"]
        if ev["kind"] not in KIND_OF.get(cb, {"?"}):
            return "callback %d %s got a state of kind %s" % (i, cb, ev["kind"])
        if cb == "on_parse_start":
            if i != 0:
                return "on_parse_start delivered again at %d" % i
            stack.append(ev["state"])
        elif cb.endswith("_start"):
            if not stack or ev["parent"] != stack[-1]:
                return "callback %d %s: parent %s is not the innermost open state %s" % (i, cb, ev["parent"], stack[-1:] )
            if ev.get("_name") in declined:
                continue  # declined: never open for this visitor
            stack.append(ev["state"])
        elif cb.endswith("_end"):
            if not stack or stack[-1] != ev["state"]:
                return "callback %d %s ends state %s but innermost open is %s" % (i, cb, ev["state"], stack[-1:])
            stack.pop()
            if not stack:
                return "callback %d %s ended the global state" % (i, cb)
        else:
            if not stack or stack[-1] != ev["state"]:
                return "callback %d %s carries state %s, innermost open is %s" % (i, cb, ev["state"], stack[-1:])
    return None


def block_name_of(ev):
    """the name impl.Recorder uses to decide whether a block is declined (see impl.block_name)"""
    h = ev["hdr"]
    if ev["kind"] == "ns":
        return "::".join(h["namespace"]["names"])
    if ev["kind"] == "ext":
        return h["linkage"]
    seg = h["class_decl"]["typename"]["segments"][-1]
    return seg.get("name") or "<anon>"


LIST_OF_CB = {
    "on_concept": "concepts", "on_namespace_alias": "ns_alias", "on_forward_decl": "forward_decls",
    "on_template_inst": "template_insts", "on_variable": "variables", "on_function": "functions",
    "on_method_impl": "method_impls", "on_typedef": "typedefs", "on_using_namespace": "using_ns",
    "on_using_alias": "using_alias", "on_using_declaration": "using", "on_enum": "enums",
    "on_class_field": "fields", "on_class_method": "methods", "on_class_friend": "friends",
    "on_deduction_guide": "deduction_guides",
}


def ref_fold(events):
    """reference fold, written from the property's statement: each payload stored once, in
    order, in the scope of its state.  Scope of a state: namespaces by name path below the
    parent's scope, extern blocks = the parent's scope, classes = a new entry in the parent's
    `classes`.  Returns {scope path: {list name: [payloads]}} plus pragmas/includes."""
    scopes = {(): {}}
    path_of = {}
    ncls = {}
    pragmas, includes = [], []
    for ev in events:
        cb = ev["cb"]
        sid = ev["state"]
        if cb == "on_parse_start":
            path_of[sid] = ()
        elif cb == "on_namespace_start":
            names = ev["hdr"]["namespace"]["names"] or [""]
            p = path_of[ev["parent"]]
            for n in names:
                p = p + (n,)
                scopes.setdefault(p, {"__inline__": False, "__doxygen__": None})
            scopes[p]["__inline__"] = ev["hdr"]["namespace"]["inline"]
            scopes[p]["__doxygen__"] = ev["hdr"]["namespace"]["doxygen"]
            path_of[sid] = p
        elif cb == "on_extern_block_start":
            path_of[sid] = path_of[ev["parent"]]
        elif cb == "on_class_start":
            pp = path_of[ev["parent"]]
            i = ncls.get(pp, 0)
            ncls[pp] = i + 1
            p = pp + ("#class%d" % i,)
            scopes[p] = {"__class_decl__": ev["hdr"]["class_decl"]}
            path_of[sid] = p
        elif cb == "on_pragma":
            pragmas.append(ev["payload"])
        elif cb == "on_include":
            includes.append(ev["payload"])
        elif cb in LIST_OF_CB:
            payload = ev["payload"]
            if cb == "on_using_namespace":
                payload = {"_": "UsingNamespace", "ns": "::".join(payload)}
            scopes[path_of[sid]].setdefault(LIST_OF_CB[cb], []).append(payload)
    return {"scopes": {"/".join(k): v for k, v in scopes.items()}, "pragmas": pragmas, "includes": includes}


def scopewise(data_json):
    """the same view computed from a ParsedData (as JSON)"""
    scopes = {}

    def walk(sc, path):
        ent = {}
        for k, v in sc.items():
            if k in ("_", "name", "namespaces", "classes"):
                continue
            if k == "class_decl":
                ent["__class_decl__"] = v
            elif k in ("inline", "doxygen"):
                if path != ():
                    ent["__%s__" % k] = v
            elif isinstance(v, list) and v:
                ent[k] = v
        scopes["/".join(path)] = ent
        for i, c in enumerate(sc.get("classes", [])):
            walk(c, path + ("#class%d" % i,))
        for n, c in (sc.get("namespaces") or {}).items():
            walk(c, path + (n,))

    walk(data_json["namespace"], ())
    return {"scopes": scopes, "pragmas": [p["content"] for p in data_json["pragmas"]], "includes": [i["filename"] for i in data_json["includes"]]}


NS_REPEATABLE = ["class Widget;", "struct G;", "using namespace std;", "using std::x;", "typedef int T;", "extern int v;", "void f(int);",
                 "enum E : int;", "using A = int;", "namespace al = std;", "static_assert(true, \"\");", "template <typename T> class TT;",
                 "#include <a.h>", "#pragma once", "template <typename T> void tf(T);", "extern template class X<int>;", "union U;"]
CLASS_REPEATABLE = ["friend class F;", "int m();", "using B::f;", "typedef int T;", "class Inner;", "enum E2 : int;", "static_assert(true, \"\");",
                    "friend void ff();", "template <typename Q> void tm(Q);", "using A = int;"]


def repeated_texts():
    """the same declaration written more than once in one result scope: twice in a row, across a re-opened namespace,
    through an extern block (which shares its parent's scope), around other declarations, in a class body.  Every
    callback must be stored: the result is the fold of the stream, not a set."""
    out = []
    for x in NS_REPEATABLE:
        sep = "\n" if x.startswith("#") else " "
        out.append(x + sep + x + "\n")
        out.append(x + sep + "int between;\n" + x + sep + "struct Other;\n" + x + "\n")
        out.append("namespace n {\n" + x + "\n}\nnamespace n {\n" + x + "\n" + x + "\n}\n")
        out.append(x + "\nextern \"C\" {\n" + x + "\n}\n" + x + "\n")
        out.append("namespace a { namespace b {\n" + x + "\n} }\nnamespace a::b {\n" + x + "\n}\n")
    for x in CLASS_REPEATABLE:
        out.append("struct S : B {\n" + x + "\n" + x + "\n};\n")
        out.append("class C : B {\npublic:\n" + x + "\nint other;\nprivate:\n" + x + "\n" + x + "\n};\n")
        out.append("struct O { struct I : B {\n" + x + "\n" + x + "\n}; " + x + "\n" + x + "\n};\n")
    return out


def misplaced_texts():
    """constructs that belong to namespace scope written in a class body, and class-only ones written outside: whatever the
    parser does with them (today: reject), every callback it delivers must carry a state of the kind its signature declares"""
    ns_only = ["template <class T> B(T) -> B<T>;", "B(int) -> B<int>;", "namespace inner { int q; }", "namespace al = std;", "using namespace std;",
               "extern \"C\" { int c; }", "template <typename T> concept C = true;", "extern template class X<int>;", "template class X<int>;"]
    cls_only = ["friend class F;", "public:", "virtual void v();", "explicit K(int);", "int b : 3;", "mutable int m;", "~K();"]
    out = []
    for x in ns_only:
        out.append("struct A { template <class T> struct B { B(T); };\n" + x + "\nint tail; };\nint after;\n")
        out.append("namespace n { class K { public:\n" + x + "\n}; }\n")
    for x in cls_only:
        out.append("int before;\n" + x + "\nint after;\n")
        out.append("namespace n {\n" + x + "\n}\nextern \"C\" {\n" + x + "\n}\n")
    return out


def run(ctx):
    global C05
    import importlib
    C05 = importlib.import_module("props.c05")
    import gen_blocks
    rng = ctx.rng("hist")
    texts = repeated_texts() + misplaced_texts() + list(pcommon.corpus())
    # block forests with trailing declarators, typedef'd classes and every leaf kind (the declining-visitor runs need them)
    cnt = [3000]
    for j in range(ctx.budget(60, 3000)):
        gen_blocks.LEAF_MODE = "mix" if j % 2 else None
        try:
            texts.append(gen_blocks.program(gen_blocks.random_tree(rng, rng.randint(2, 7), cnt)))
        finally:
            gen_blocks.LEAF_MODE = None
    for _ in range(ctx.budget(120, 6000)):
        texts.append(gen_prog.gen_program(rng, budget=6)[0])
        texts.append(gen_prog.gen_class_program(rng)[0])
    ngenerated = len(texts)
    texts += pcommon.mutated_corpus(ctx, ctx.budget(200, 6000))
    mfails = []
    ffails = []
    foldfails = []
    fault_cases = []
    nfault = 0
    for ti, t in enumerate(texts):
        r = impl.impl_parse(t, "f.h", with_simple=True)
        evs = canon.renumber(r["events"])
        # the corpus and the generated programs are complete sources (every block they open is closed in the text):
        # when parse() returns normally every started block must have been ended
        if ti < ngenerated and r["result"]["k"] != "ok" and "INTERNAL ERROR" in str(r["result"].get("msg")):
            mfails.append({"input": t, "diff": "complete source: the parser's own block stack became unbalanced (%s)" % str(r["result"].get("msg"))[:120]})
        if ti < ngenerated and r["result"]["k"] == "ok":
            opened = sum(1 for e in evs if e["cb"].endswith("_start") and e["cb"] != "on_parse_start")
            ended = sum(1 for e in evs if e["cb"].endswith("_end"))
            if opened != ended:
                mfails.append({"input": t, "diff": "complete source: %d blocks started, %d ended when parse() returned" % (opened, ended)})
        ctx.count(t, nontrivial=any(e["cb"].endswith("_start") and e["cb"] != "on_parse_start" for e in evs))
        bad = monitor(evs, r["result"]["k"] == "ok")
        if bad:
            mfails.append({"input": t, "diff": bad})
        # the same protocol for a visitor that declines some blocks (returns False from their start callback)
        starts = [e for e in r["events"] if e["cb"].endswith("_start") and e["cb"] != "on_parse_start"]
        if starts and r["result"]["k"] == "ok" and rng.random() < 0.5:
            names = sorted(set(block_name_of(e) for e in starts))
            dec = set(rng.sample(names, rng.randint(1, min(2, len(names)))))
            rd = impl.impl_parse(t, "f.h", skip=dec)
            evd = canon.renumber(rd["events"])
            for e in evd:
                if e["cb"].endswith("_start") and e["cb"] != "on_parse_start":
                    e["_name"] = block_name_of(e)
            bad = monitor(evd, rd["result"]["k"] == "ok", declined=dec)
            if bad:
                mfails.append({"input": t, "declined": sorted(dec), "diff": "with a visitor declining %s: %s" % (sorted(dec), bad)})
            else:
                # complete: what the declining visitor receives is the full traversal minus the declined subtrees
                full = [dict(e, _name=block_name_of(e)) if (e["cb"].endswith("_start") and e["cb"] != "on_parse_start") else e for e in r["events"]]
                want = [C05.proj(e) for e in C05.py_prune(full, dec)]
                got = [C05.proj(e) for e in rd["events"]]
                if want != got:
                    k = next((j for j, (x, y) in enumerate(zip(want, got)) if x != y), min(len(want), len(got)))
                    mfails.append({"input": t, "declined": sorted(dec), "diff": "with a visitor declining %s the stream is not the full traversal minus the declined blocks: callback %d expected %s, got %s" % (
                        sorted(dec), k, (want[k] if k < len(want) else None), (got[k] if k < len(got) else None))})
        # fold: parse_string result equals the inner SimpleCxxVisitor's data driven by the same stream
        if r["result"]["k"] == "ok":
            try:
                d = parse_string(t, filename="f.h")
                a, b = scopewise(impl.to_json(d)), ref_fold(r["events"])
                if a != b:
                    foldfails.append({"input": t, "diff": "parse_string is not the fold of the stream: " + str(canon.first_diff(b, a))[:300]})
            except CxxParseError as e:
                foldfails.append({"input": t, "diff": "parse_string failed (%s) but CxxParser+SimpleCxxVisitor succeeded" % e})
        # faults
        n = len(r["events"])
        positions = range(1, n) if (ctx.tier == "thorough" or n <= 6) else sorted(set([1, n - 1] + [rng.randint(1, n - 1) for _ in range(3)])) if n > 1 else []
        for i in positions:
            nfault += 1
            rf = impl.impl_parse(t, "f.h", fault=i)
            exp = [json.dumps(e, sort_keys=True) for e in canon.renumber(r["events"])[: i + 1]]
            got = [json.dumps(e, sort_keys=True) for e in canon.renumber(rf["events"])]
            res = rf["result"]
            if got != exp:
                ffails.append({"input": t, "fault": i, "diff": "delivered %d callbacks, expected the first %d of the unfaulted stream" % (len(got), i + 1)})
            elif res.get("k") != "error" or (res.get("cause") or {}).get("k") != "visitor":
                ffails.append({"input": t, "fault": i, "diff": "parse() did not fail with an error chained to the raised exception: %s" % res})
            if len(fault_cases) < ctx.budget(150, 3000) and rng.random() < 0.3:
                fault_cases.append((t, {"fault": i}))
    ctx.oracle("monitor", len(texts), mfails)
    ctx.oracle("fold_is_fold", len(texts), foldfails)
    ctx.oracle("fault_every_position", nfault, ffails)
    ctx.sample({"input": texts[len(texts) // 3], "n_callbacks": len(impl.impl_parse(texts[len(texts) // 3], "f.h")["events"])})
    pcommon.parse_corr(ctx, "parse[stream view]", texts[: ctx.budget(650, 8000)], proj=pcommon.proj_stream)
    pcommon.parse_corr(ctx, "parse+fault", fault_cases, proj=pcommon.proj_stream)
    # fold correspondence: model's parse_string vs implementation
    if ctx.driver is not None:
        sub = texts[: ctx.budget(400, 5000)]
        res = ctx.driver.run([{"op": "simple", "text": t, "filename": "f.h"} for t in sub])
        mism = []
        skipped = 0
        for t, r in zip(sub, res):
            if canon.is_model_limit(r):
                skipped += 1
                continue
            try:
                e = {"k": "ok", "data": impl.to_json(parse_string(t, filename="f.h"))}
            except CxxParseError as ex:
                e = {"k": "error", "data": None}
            m = {"k": r["result"]["k"], "data": r["data"]}
            if e != m:
                mism.append({"input": t, "diff": canon.first_diff(e, m)})
        ctx.corr("simple(fold)", len(sub), mism, skipped)


def replay(path):
    def recheck(v):
        return False, "REPRODUCED: %s\n%s" % (v.get("diff"), v["input"])
    return pcommon.generic_replay(path, recheck)
