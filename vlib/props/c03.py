"""C03 — class bodies: member kinds, access levels and special members."""
import canon
import gen_prog
import impl
import pcommon
from cxxheaderparser.simple import parse_string
from cxxheaderparser.errors import CxxParseError

TECHNIQUE = 'Lean 4: refinement proof of the access-specifier machine to a function of the history for any nesting, stack refinement, monotone anonymous ids for every client; member grammar decided by correspondence + AST-first oracle (not a theorem)'
LEAN_TARGET = "CxxModel.Props.C03"
THEOREMS = ["Cxx.C03_access_tracks", "Cxx.C03_member_access", "Cxx.C03_stack_refines", "Cxx.C03_anon_mono",
            "Cxx.C03_anon_ids_increase", "Cxx.access_tracks", "Cxx.C03_method_qualifiers", "Cxx.C03_method_qualifiers_assign", "Cxx.C03_method_qualifiers_body", "Cxx.C03_qualifier_flags", "Cxx.methodEnd_quals_prefix", "Cxx.C03_access_specifier", "Cxx.C03_access_outside_class", "Cxx.C03_toplevel_access_specifier", "Cxx.C03_toplevel_field", "Cxx.C03_toplevel_class_head", "Cxx.C03_toplevel_class_end", "Cxx.C03_field_declarators", "Cxx.C03_method_declarator", "Cxx.C03_toplevel_method", "Cxx.C03_bitfield_declarator",
    "Cxx.C03_member_access_level",
    "Cxx.C03_latest_specifier_wins",
    "Cxx.C03_default_access_kept",
    "Cxx.C03_class_body",
    "Cxx.C03_class_source",
    "Cxx.C03_nested_class",
    "Cxx.C03_cv_field", "Cxx.toplevel_field_gen", "Cxx.C03_field_general", "Cxx.toplevel_field_pre", "Cxx.C03_method_general", "Cxx.toplevel_method_gen", "Cxx.C03_array_field", "Cxx.toplevel_field_array_pre", "Cxx.C03_bitfield_member", "Cxx.toplevel_field_bits_pre", "Cxx.C03_method_definition", "Cxx.declarator_method_body",
    "Cxx.C03_class_head_bases", "Cxx.C03_base_virtual_own", "Cxx.C03_base_access_own", "Cxx.baseClause_list", "Cxx.toplevel_class_head_bases",
    "Cxx.C03_class_head_final", "Cxx.C03_class_head_final_bases", "Cxx.classSpec_loop", "Cxx.C03_constructor", "Cxx.C03_default_constructor",
    "Cxx.C03_constructor_parameters", "Cxx.declarator_ctor", "Cxx.cvPtr_paren_stop", "Cxx.C03_destructor", "Cxx.C03_plain_destructor", "Cxx.declarator_dtor", "Cxx.mseq_soundN"]
ANCHORS = ["parser.py:CxxParser._parse_class_decl", "parser.py:CxxParser._parse_class_decl_base_clause", "parser.py:CxxParser._process_access_specifier",
           "parser.py:CxxParser._parse_method_end", "parser.py:CxxParser._parse_function", "parser.py:CxxParser._parse_decl", "parser.py:CxxParser._parse_field",
           "parser.py:CxxParser._finish_class_or_enum", "parser.py:CxxParser._finish_class_decl", "parser.py:CxxParser._on_block_end", "parser.py:CxxParser._pop_state",
           "parser.py:CxxParser._setup_state", "parser.py:CxxParser._parse_pqname", "parser.py:CxxParser._parse_friend_decl", "parser.py:CxxParser._maybe_parse_class_enum_decl",
           "parser.py:CxxParser._parse_declarations", "parser.py:CxxParser._discard_ctor_initializer", "parser.py:CxxParser._parse_operator_conversion",
           "parser.py:CxxParser._current_access", "parserstate.py:", "simple.py:", "types.py:"]
RULE = ("class definitions from a member grammar: fields (bitfields, defaults, mutable/static), methods with all qualifiers, "
        "constructors/destructors/operators/conversions, friends, nested classes/enums/unions (anonymous too), typedefs, using, "
        "forward declarations, access specifiers anywhere, bases with access/virtual/pack, trailing declarators; expected "
        "ClassScope tree built by the generator; non-trivial = a class with an access specifier or a nested class")
CARRIED_BY = {
    "data members over ANY type specifier (cv-qualified / fundamental / qualified names, TypeSpecR): `S ptr-ops x ;` in a class body through parse()'s loop is exactly one on_class_field with the access level in force and the chain over the type S denotes; such members compose with every other member kind in Item.cls": "theorems C03_cv_field (toplevel_field_gen), C03_field_general (toplevel_field_pre: any declarator prefix as well, e.g. references), Member.fieldGen / Member.fieldPre (Theorems/DeclGenItems.lean)",
    "WHOLE CLASS BODIES of any length through parse()'s loop: every field `T ptr-ops x;` and method `T ptr-ops f(params) quals;` is reported once, in order, with the access level left by the members before it — the LATEST `public:`/`protected:`/`private:` in its own class, or the class key's default (private for class, public for struct/union) when there is none — and `key N { members };` at namespace scope (any nesting of namespaces around it) delivers the class start, the members' callbacks inside that class block, and the class end": 'theorems C03_class_body (mseq_sound), C03_member_access_level (MSeqEv.at_member), C03_latest_specifier_wins (accAfter_spec), C03_default_access_kept (accAfter_id), C03_class_source (parse_source on Item.cls), C03_nested_class (a class nested in a class body is a member: its members start from the default of ITS key, the outer level is in force again after it; Member.cls; also Member.typedef / forwardDecl / usingAlias / enum in class bodies) — Theorems/Members.lean, MemberKinds.lean (Member.field / Member.method / Member.accessSpec, Item.cls), WholeParse.lean',
    "member functions, bit-fields and multi-declarator members, in a class body: `T ptr-ops f ( p1, …, pn ) qualifiers ;` is exactly ONE on_class_method with the access level in force in that class and exactly the written qualifier flags (const, volatile, override, final, &, &&; any number, any order); `x : width` exactly one on_class_field with the written width; `d1, d2, …, dn ;` one on_class_field per declarator, in order": "theorems C03_method_declarator, C03_toplevel_method (Theorems/MethodDecl.lean), C03_bitfield_declarator, C03_field_declarators (Theorems/FieldDecls.lean)",
    "class definitions through the parse loop and the recursive core: `class/struct/union a::…::N {` (no base clause) opens exactly ONE class block whose access level is the class-key default (private for class, public for struct/union), with the written key and name, the doc text and the access in force in the enclosing class; `} ;` of a named class ends and pops exactly that block, restores the visitor in force before it and synthesises nothing": "theorems C03_toplevel_class_head, C03_toplevel_class_end (Theorems/ClassForm.lean, TopLevel.lean); with C03_toplevel_access_specifier, C03_toplevel_field, C03_access_tracks: every data member of a class body of fields and access specifiers, nested to any depth, is reported once with the access level in force at its position",
    "a data member through the whole parse loop and the recursive core: `T ptr-ops x ;` in a class body delivers exactly ONE on_class_field for the innermost open class with the name x, the type the declarator denotes, the access level in force in THAT class, no bit width, no value, and the doc text before or else behind it": "theorem C03_toplevel_field (Theorems/VarDecl.lean, TopLevel.lean)",
    "an access specifier in a class body sets the access of the innermost open class (that stack entry only) to the written keyword, consumes the colon, delivers nothing": "theorems C03_access_specifier (Theorems/AccessForm.lean), C03_toplevel_access_specifier (through one iteration of the parse loop, regenerated dispatch table); with C03_stack_refines / C03_access_tracks this is the `.access` step of the machine",
    "access level in force = default until first specifier of the same class, then most recent of that class (any nesting)": "theorem C03_access_tracks (full, unbounded) + C03_stack_refines (the interpreter's stack is that machine)",
    "anonymous ids are never reused": "theorems C03_anon_mono, C03_anon_ids_increase (any client)",
    "method qualifiers: for every sequence of const / volatile / override / final / & / && (any order, any number) ended by a plain token, `= 0|delete|default` or a body, exactly the written flags are set and nothing else of the method changes": "theorems C03_method_qualifiers, C03_method_qualifiers_assign, C03_method_qualifiers_body, C03_qualifier_flags",
    "base clauses `key N : [access] [virtual] a::…::B [...] , … {` (any number of bases, any number/order of specifiers): the class block header lists ONE BaseClass per written base, in order, each with the access level of ITS OWN latest access specifier (else the class-key default), virtual iff written among ITS OWN specifiers, pack flag iff `...` follows ITS OWN name — nothing leaks from one base to the next; such classes compose in whole sources and class bodies (Item.clsB / Member.clsB)": "theorems C03_class_head_bases, C03_base_access_own, C03_base_virtual_own (Props/C03.lean) over baseClause_list / baseSpec_loop (Theorems/BaseClause.lean, induction over the base list and each specifier list); bases with template arguments: correspondence + oracle `member_grammar`",
    "`final` classes `key N final… [: base-clause] {`: the class block is marked final iff at least one `final` is written after the name (any number), independently of the base list; compose in whole sources (Item.clsF / clsFB, Member.clsF / clsFB)": "theorems C03_class_head_final, C03_class_head_final_bases over classSpec_loop (Theorems/ClassFinal.lean, induction over the written `final`s; the loop is named classSpecBody in Parser/Decl.lean)",
    "constructors `N ( parameters ) qualifiers ;` and destructors `~N ( ) qualifiers ;` (`~N` is one token) in the body of a class named N, through parse()'s loop: the `(` after the class's own name is recognised (pushed back twice, re-read), exactly ONE on_class_method with constructor=True, NO return type, the class name, exactly the parameters (none for `()`, any PItemG list otherwise), the access level in force and exactly the written qualifier flags": "theorems C03_constructor (any parameter list via an interface hypothesis on _parse_parameters), C03_default_constructor, C03_constructor_parameters C03_destructor, C03_plain_destructor (Props/C03.lean) over cvPtr_paren_stop / declarator_ctor / declarator_dtor / toplevel_ctor / toplevel_dtor (Theorems/CtorDecl.lean); classes declaring them compose in whole sources: MemberN (members that may assume the class's name), Member.toN, MemberN.ctor0 / ctorP / dtor0, mseq_soundN, Item.clsN, Member.clsN for nested classes (Theorems/MembersN.lean), with a concrete token stream meeting the hypotheses in Props/C01.lean",
    "other member kinds (operators, conversions, friends), noexcept/throw/trailing return in the sequence, template-argument bases": "NOT theorems: correspondence `parse[class view]` + oracle `member_grammar`",
}
ASSUMPTIONS = ["parser model tied to parser.py by the correspondence check"]
MODEL_COVERAGE = "class-related functions of parser.py (Parser/Decl.lean), state stack (Interp.lean)"


def run(ctx):
    rng = ctx.rng("cls")
    n = ctx.budget(300, 15000)
    fails = []
    texts = []
    forms = {}
    for _ in range(n):
        text, exp, f = gen_prog.gen_class_program(rng)
        texts.append(text)
        for k, v in f.items():
            forms[k] = forms.get(k, 0) + v
        ctx.count(text, nontrivial=("public:" in text or "private:" in text or "protected:" in text or text.count("{") > 2))
        try:
            got = parse_string(text)
        except CxxParseError as e:
            fails.append({"input": text, "error": str(e)})
            continue
        if got != exp:
            fails.append({"input": text, "diff": canon.first_diff(impl.to_json(exp), impl.to_json(got))})
    ctx.oracle("member_grammar", n, fails)
    ctx.extra["forms_generated"] = forms
    ctx.sample({"program": texts[0]})
    cls_corpus = [t for t in pcommon.corpus() if "class" in t or "struct" in t or "union" in t]
    pcommon.parse_corr(ctx, "parse[class view]", cls_corpus + texts[: ctx.budget(200, 5000)], proj=pcommon.proj_class)


def replay(path):
    def recheck(v):
        return False, "REPRODUCED: class program parsed differently from the member grammar's expectation: %s\n%s" % (v.get("diff") or v.get("error"), v["input"])
    return pcommon.generic_replay(path, recheck)
