"""C13 — skipped regions are skipped exactly."""
import gen_text
import pcommon
from cxxheaderparser.errors import CxxParseError
from cxxheaderparser.simple import parse_string

TECHNIQUE = 'Lean 4: _discard_contents proved against the significant-token abstraction of the real stream for every balanced content and every parser state (exact resume point, content irrelevance); attribute/static_assert consumers decided by correspondence and a bracket-soup oracle'
LEAN_TARGET = "CxxModel.Props.C13"
THEOREMS = ["Cxx.C13_discard_resumes", "Cxx.C13_discard_exact", "Cxx.C13_discard_content_irrelevant", "Cxx.C13_balanced_region",
            "Cxx.C13_declspec_resumes", "Cxx.C13_gcc_attribute_resumes", "Cxx.C13_static_assert_resumes", "Cxx.C13_balanced_tables",
            "Cxx.balTableOK", "Cxx.tokLoop_complete", "Cxx.discard_interp", "Cxx.interp_bind", "Cxx.C13_attribute_sequence", "Cxx.attrSeq_consumes"]
ANCHORS = ["parser.py:CxxParser._discard_contents", "parser.py:CxxParser._discard_ctor_initializer", "parser.py:CxxParser._consume_balanced_tokens",
           "parser.py:CxxParser._consume_attribute_specifier_seq", "parser.py:CxxParser._consume_attribute", "parser.py:CxxParser._consume_gcc_attribute",
           "parser.py:CxxParser._consume_declspec", "parser.py:CxxParser._consume_static_assert", "parser.py:CxxParser._parse_function",
           "parser.py:CxxParser._parse_fn_end", "parser.py:CxxParser._parse_method_end", "parser.py:CxxParser._balanced_token_map", "lexer.py:TokenStream"]
RULE = ("every skippable region (function/method/ctor/dtor/operator bodies at namespace scope, in classes, out of class; "
        "ctor initializer arguments incl. pack expansions; [[ ]] contents and arguments; __attribute__, __declspec, alignas "
        "arguments on variables, functions, classes, enumerators, parameters; static_assert at namespace and class scope) "
        "times bracket-balanced token soups (keywords, declarations, access specifiers, `};`, nested brackets of all kinds, "
        "string/char literals containing brackets, one or more lines); expected = the result with the region empty; "
        "non-trivial = soup of at least 4 tokens with a nested bracket")
CARRIED_BY = {
    "_discard_contents stops exactly after the closer matching the opener already consumed, for every balanced content": "theorems C13_discard_resumes, C13_discard_exact",
    "what is inside a discarded region cannot influence the continuation": "theorem C13_discard_content_irrelevant",
    "the bracket table of the balanced-token matcher is the regenerated one": "theorem C13_balanced_tables",
    "the balanced-token matcher ([[ ]], alignas, __declspec, __attribute__(( ))) consumes properly nested content (all five bracket kinds) up to the matching closer and returns exactly those tokens; _consume_declspec, _consume_gcc_attribute, _consume_static_assert end right after their region": "theorems C13_balanced_region, C13_declspec_resumes, C13_gcc_attribute_resumes, C13_static_assert_resumes (every content, stream state, parser state)",
    "sequences of `[[ ]]` and `alignas( )` groups of any length are consumed whole and the token after them stays in the stream": "theorem C13_attribute_sequence",
    "unbalanced `<`/`>` inside attribute arguments (tolerance rule), the ctor-initializer scan, and that each construct calls its consumer": "oracle `soup` + correspondence `parse[regions]` (not proof)",
}
ASSUMPTIONS = ["soups contain no preprocessor lines", "in regions consumed by the balanced-token matcher tokens are never glued (`[` `[` would lex as `[[`, a different, unbalanced token sequence); in regions skipped by bracket counting 40% of the soups are written with brackets glued"]
MODEL_COVERAGE = "Parser/Basic.lean: discardContents, consumeBalancedTokens; Parser/Decl.lean: attribute and static_assert consumers, discardCtorInitializer"

# (template, number of regions, which regions use the balanced-token matcher)
CONSTRUCTS = [
    ("void f() {%s}\nint after;\n", "body"),
    ("inline auto f() -> int {%s}\nint after;\n", "body"),
    ("void f() noexcept {%s}\nint after;\n", "body"),
    ("template <typename T> T f(T t) {%s}\nint after;\n", "body"),
    ("extern \"C\" void f() {%s}\nint after;\n", "body"),
    ("namespace N { void f() {%s}\nint inner; }\nint after;\n", "body"),
    ("struct S { void m() {%s}\n int after; };\nint after2;\n", "body"),
    ("struct S { void m() const override {%s}\n int after; };\n", "body"),
    ("struct S { int f(int a, char b) const noexcept {%s}\n int after; };\n", "body"),
    ("struct S { virtual void m() volatile && {%s}\n int after; };\n", "body"),
    ("struct S { ~S() {%s}\n int after; };\n", "body"),
    ("struct S { bool operator<(const S& o) {%s}\n int after; };\n", "body"),
    ("struct S { operator int() {%s}\n int after; };\n", "body"),
    ("struct S { S() {%s}\n int after; };\n", "body"),
    ("struct S { S() : a(1) {%s}\n int after; };\n", "body"),
    ("struct S { S() : a(%s), b(2) {}\n int after; };\n", "paren"),
    ("struct S { S() : a{%s} {}\n int after; };\n", "brace"),
    ("struct S { S() : a(1), Base<int, 3>(%s), c{3} { x; }\n int after; };\n", "paren"),
    ("template <typename... Bs> struct D : Bs... { D(int v) : Bs(%s)... {}\n int after; };\n", "paren"),
    ("template <typename... Bs> struct D : Bs... { D(int v) : x(1), Bs{%s}... { y; }\n int after; };\n", "brace"),
    ("S::S() : a(%s) {}\nint after;\n", "paren"),
    ("S::S() : ns::Base(1), a(2) {%s}\nint after;\n", "body"),
    ("void S::m() {%s}\nint after;\n", "body"),
    ("[[attr(%s)]] int x;\nint after;\n", "bal"),
    ("[[%s]] int x;\nint after;\n", "bal"),
    ("[[ns::attr(%s), other]] void f();\nint after;\n", "bal"),
    ("__attribute__((%s)) void f();\nint after;\n", "bal"),
    ("__declspec(%s) int x;\nint after;\n", "bal"),
    ("alignas(%s) int x;\nint after;\n", "bal"),
    ("struct alignas(%s) S { int m; };\nint after;\n", "bal"),
    ("struct [[attr(%s)]] S { int m; };\nint after;\n", "bal"),
    ("struct __declspec(%s) S { int m; };\nint after;\n", "bal"),
    ("enum E { a [[attr(%s)]] = 1, b };\nint after;\n", "bal"),
    ("struct S { [[attr(%s)]] int m; int after; };\n", "bal"),
    ("struct S { alignas(%s) int m; int after; };\n", "bal"),
    ("struct S { __attribute__((%s)) void m(); int after; };\n", "bal"),
    ("static_assert(%s);\nint after;\n", "bal"),
    ("struct S { static_assert(%s); int after; };\n", "bal"),
]


def render(rng, toks):
    out = []
    for t in toks:
        out.append(t)
        # never glue tokens: `[` `[` would lex as `[[`, `<` `<` as `<<`, ...
        out.append(rng.choice([" ", " ", " ", "\n", "  ", " /* c */ ", "\t", " // c\n"]))
    return "".join(out)


GLUABLE = set("[](){}<>")


def render_tight(rng, toks):
    """for regions skipped by bracket COUNTING (`_discard_contents`: bodies, constructor initializer arguments): brackets
    are written without layout between them, so that `[` `[` reaches the parser as one `[[` token, `]` `]` as `]]`,
    `>` `>` as `>>`.  The characters are still balanced and the region must still be skipped exactly."""
    out = []
    prev = None
    for t in toks:
        if prev is not None and not (prev in GLUABLE and t in GLUABLE and rng.random() < 0.8):
            out.append(rng.choice([" ", " ", "\n", " /* c */ "]))
        out.append(t)
        prev = t
    return "".join(out)


def render_closers_tight(rng, toks):
    """for regions consumed by the balanced-token matcher: only CLOSING brackets are written without layout between them
    (`a[b[0]]`, `f(g(x))`): the lexer fuses `]` `]` into one `]]` token, which the matcher has to take apart again; opening
    brackets are never glued (`[` `[` would be an attribute opener, a different token sequence)"""
    out = []
    prev = None
    for t in toks:
        if prev is not None and not (prev in ")]}>" and t in ")]}>" and rng.random() < 0.9):
            out.append(rng.choice([" ", " ", "\n", " /* c */ "]))
        out.append(t)
        prev = t
    return "".join(out)


def angle_issue(toks):
    """a `>` or `>>` that closes no open `<` at its nesting level (the balanced-token matcher rejects it)"""
    stack = [0]
    for t in toks:
        if t in ("(", "[", "{", "[["):
            stack.append(0)
        elif t in (")", "]", "}", "]]"):
            stack.pop()
        elif t == "<":
            stack[-1] += 1
        elif t == ">":
            if stack[-1] == 0:
                return True
            stack[-1] -= 1
    return False


def run(ctx):
    rng = ctx.rng("soup")
    n = ctx.budget(1500, 80000)
    fails = []
    texts = []
    base_cache = {}
    supported = []
    for tmpl, kind in CONSTRUCTS:
        try:
            base_cache[tmpl] = parse_string(tmpl % "")
            supported.append((tmpl, kind))
        except CxxParseError as e:
            # every listed construct is accepted with an empty region on the pinned tree
            fails.append({"input": tmpl % "", "construct": tmpl, "soup": [], "diff": "construct with an empty region rejected: %s" % str(e)[:200]})
    for i in range(n):
        tmpl, kind = supported[i % len(supported)]
        angle_safe = rng.random() < 0.7
        if kind == "brace":
            closers = ("()", "[]", "{}")
        else:
            closers = ("()", "[]", "{}")
        toks = [t for t in gen_text.soup(rng, 0, rng.choice([4, 8, 12, 20]), angle_safe, closers) if t != "#"]
        # "a<b" is three tokens
        flat = []
        for t in toks:
            flat.extend(["a", "<", "b"] if t == "a<b" else [t])
        toks = flat
        if kind == "bal" and tmpl.startswith("[[%s") and "]]" in toks:
            pass
        if kind != "bal" and rng.random() < 0.4:
            content = render_tight(rng, toks)
        elif kind == "bal" and rng.random() < 0.35:
            content = render_closers_tight(rng, toks)
        else:
            content = render(rng, toks)
        text = tmpl % (" " + content + " ")
        nontrivial = len(toks) >= 4 and any(t in ("(", "[", "{", "[[") for t in toks)
        ctx.count(text, nontrivial=nontrivial)
        texts.append(text)
        finding = None
        try:
            got = parse_string(text)
        except CxxParseError as e:
            f = {"input": text, "construct": tmpl, "soup": toks, "diff": "rejected: %s" % str(e)[:200]}
            if finding:
                f["finding"] = finding
            fails.append(f)
            continue
        if got != base_cache[tmpl]:
            f = {"input": text, "construct": tmpl, "soup": toks, "diff": "result differs from the result with the region empty"}
            if finding:
                f["finding"] = finding
            fails.append(f)
    kn = {}
    for f in fails:
        if f.get("finding"):
            kn.setdefault(f["finding"], f)
    ctx.oracle("soup", n, list(kn.values()) + [f for f in fails if not f.get("finding")])
    ctx.sample({"text": texts[0]})
    pcommon.parse_corr(ctx, "parse[regions]", texts[: ctx.budget(300, 6000)], proj=pcommon.proj_structure)


def _w(src):
    def f():
        try:
            parse_string(src)
            return False
        except CxxParseError:
            return True
    return f


WITNESSES = {}


def replay(path):
    def recheck(v):
        return False, "REPRODUCED: %s\n%s" % (v.get("diff"), v["input"])
    return pcommon.generic_replay(path, recheck)
