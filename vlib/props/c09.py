"""C09 — layout between tokens never changes the result."""
import json
import os

import canon
import gen_prog
import gen_text
import impl
import pcommon
from cxxheaderparser.lexer import LexerTokenStream

TECHNIQUE = 'Lean 4: stream theorems (no layout token is handed out, any layout prefix is skipped) on the regenerated discard sets; whole-parse layout independence decided by correspondence of the parser model and a relayout oracle on the implementation (not a theorem)'
LEAN_TARGET = "CxxModel.Props.C09"
THEOREMS = ["Cxx.C09_discard_sets_are_layout", "Cxx.C09_popSignificant_skips_layout", "Cxx.C09_popSignificant_not_layout", "Cxx.C09_next_ignores_layout_prefix",
            "Cxx.C09_layout_sim", "Cxx.C09_parser_layout", "Cxx.C09_same_callbacks", "Cxx.C09_prelexed_locations_irrelevant", "Cxx.rbnd_bisim", "Cxx.interp_flag",
            "Cxx.discard_sets_are_layout", "Cxx.C09_layout_in_buffer_invisible", "Cxx.C09_yields_respects_layout", "Cxx.C09_trailing_scan_keeps_line_ends", "Cxx.C09_trailing_scans_keep_line_ends", "Cxx.C09_newline_reads_unaffected_by_trailing_scan", "Cxx.doxAfterScan_nlSig"]
ANCHORS = ["lexer.py:", "parser.py:CxxParser._process_pragma_directive", "parser.py:CxxParser._process_include_directive", "lex.py:Lexer.token",
           "parser.py:CxxParser.parse", "parser.py:CxxParser._parse_template", "parser.py:CxxParser._parse_template_decl", "parser.py:CxxParser._parse_cv_ptr_or_fn"]
RULE = ("every token gap (quick: a sample of gaps) of every valid input without documentation comments (test corpus, generated "
        "programs and class programs) x every layout string of the alphabet (blanks, tabs, LF, CRLF, block/line comments, "
        "multi-line comments, backslash-newline and concatenations); result = full callback stream without line numbers; "
        "non-trivial = gap between two tokens of one declaration")
CARRIED_BY = {
    "the trailing-comment scan keeps every line end (the statement the repair 9b2dc7f makes true): get_doxygen_after() removes comment tokens only; what a newline-sensitive read (token_newline_eof_ok, used by #pragma / #include handling) sees of the buffer is unchanged, for any number of scans in a row; after the scan that read returns exactly what it would have returned before": "theorems C09_trailing_scan_keeps_line_ends, C09_trailing_scans_keep_line_ends, C09_newline_reads_unaffected_by_trailing_scan (Theorems/LineEnds.lean: nlSigOf, doxAfterScan_nlSig, NlSigEq, tokenNewlineEofOk_nlSigEq)",
    "layout tokens waiting in the line buffer are invisible to token_eof_ok; stream states that differ only in them yield the same token sequences": "theorems C09_layout_in_buffer_invisible, C09_yields_respects_layout",
    "the token-stream operations never hand out layout tokens and skip any layout prefix": "theorems C09_popSignificant_skips_layout, C09_next_ignores_layout_prefix, C09_discard_sets_are_layout (regenerated sets)",
    "the parser observes the text only through the stream operations: stream states no operation can tell apart give the same callbacks, payloads, result and parser state for every client program": "theorem C09_layout_sim (generic, bisimulation argument) + C09_parser_layout / C09_same_callbacks (instance at the parser model); concrete bisimulation: C09_prelexed_locations_irrelevant",
    "two texts with the same significant tokens give stream states that no operation can tell apart (the lexer side)": "NOT a theorem: correspondence `parse[relayout]` + oracle `relayout` on the implementation",
}
ASSUMPTIONS = ["inputs with documentation comments are C11's (a blank line legitimately detaches a doc block)",
               "known findings: comment/CR before the end of a #pragma/#include line; a line that is only a backslash"]
MODEL_COVERAGE = "TokenStream / LexerTokenStream (TokStream.lean), PLY rules"


def sig_tokens(text):
    lx = LexerTokenStream(None, text)
    out = []
    while True:
        t = lx.token_eof_ok()
        if t is None:
            return out
        out.append(t)


def gaps_of(text):
    """positions between consecutive significant tokens (and before the first / after the last)"""
    toks = sig_tokens(text)
    g = []
    prev_end = 0
    for t in toks:
        # continuation/UDL fusion may make value differ from the text; use lexpos only
        g.append((prev_end, t.lexpos, t))
        prev_end = t.lexpos + len(t.value)
    return g, toks


def has_doc(t):
    return any(m in t for m in ("/**", "///", "//!", "/*!"))


def view(r):
    return json.dumps(pcommon.proj_structure(canon.canon_parse(r, "")), sort_keys=True)


def directive_line(text, pos):
    ls = text.rfind("\n", 0, pos) + 1
    le = text.find("\n", pos)
    line = text[ls: le if le >= 0 else len(text)]
    return line.lstrip().startswith("#")


def relayout_input(job):
    """all the relayouts of one input; returns (cases, counted keys, failures, unchanged relayouts)"""
    t, tier, escalated, seed = job
    import random
    rng = random.Random(seed)
    n = 0
    counted = []
    fails = []
    same = []
    try:
        g, toks = gaps_of(t)
    except Exception:  # noqa
        return n, counted, fails, same
    base = impl.impl_parse(t, "f.h")
    if base["result"]["k"] != "ok":
        return n, counted, fails, same
    bview = view(base)
    positions = [(a, b, tk) for a, b, tk in g]
    choose = positions if tier == "thorough" else rng.sample(positions, min(len(positions), 10 if escalated else 6))
    if tier != "thorough":
        # gaps inside directive lines are few and have their own layouts: always all of them
        choose = choose + [p for p in positions if p not in choose and (directive_line(t, max(0, p[1] - 1)) or directive_line(t, p[1]))][:12]
    for a, b, tk in choose:
        on_directive = directive_line(t, max(0, b - 1)) or directive_line(t, b)
        if on_directive:
            # the end of a directive line is significant: only blanks / block comments inside the line
            lays = [" ", "\t", " /* c */ "]
            le0 = t.find("\n", b)
            if tk.type not in ("PRAGMA_DIRECTIVE", "INCLUDE_DIRECTIVE") and t[b: le0 if le0 >= 0 else len(t)].strip() != "":
                # INSIDE the directive line (a token of the directive follows on the same line): a line splice and a block
                # comment that spans lines are layout like any other
                lays += [" \\\n ", "\\\n", " /* a\n b */ ", " \\\n  \\\n\t"]
        else:
            lays = gen_text.LAYOUTS if tier == "thorough" else rng.sample(gen_text.LAYOUTS, 6 if escalated else 4)
        for lay in lays:
            n += 1
            # mostly in front of the next token; sometimes right behind the previous one (before the line end, when the gap
            # holds one); a gap without any layout is relaid out like any other
            pos = a if (a < b and rng.random() < 0.4) else b
            if pos == a and a > 0 and ((t[a - 1] == "/" and lay[:1] in ("/", "*")) or (t[a - 1] == "\\")):
                pos = b  # `/` directly followed by a comment start is another comment, not a token and layout
            if on_directive and tk.type in ("PRAGMA_DIRECTIVE", "INCLUDE_DIRECTIVE"):
                # nothing precedes the directive token on its line but blanks; the end of the line BEFORE it is an ordinary
                # place for layout when that line is not a directive line itself
                if "\n" in t[a:b] and a > 0 and not directive_line(t, a - 1):
                    pos = a
                    lay = {" ": "  ", "\t": " // c", " /* c */ ": " /* c */"}.get(lay, lay)
                else:
                    continue
            t2 = t[:pos] + lay + t[pos:]
            counted.append(((t, pos, lay), a > 0))
            r2 = impl.impl_parse(t2, "f.h")
            if view(r2) != bview:
                f = {"input": t2, "original": t, "gap_at": pos, "layout": lay,
                     "diff": "result changed by layout %r before token %r: %s" % (lay, tk.value, str(canon.first_diff(json.loads(bview), json.loads(view(r2))))[:250])}
                le = t.find("\n", pos)
                at_line_end = t[pos: le if le >= 0 else len(t)].strip() == ""
                if at_line_end and pos > 0 and directive_line(t, pos - 1) and t[pos - 1] != "\n":
                    # the listed finding is about layout before the END of a directive line only
                    f["finding"] = "C09-directive-line"
                elif "\\\n" in lay and (pos == 0 or t[:pos].rstrip(" \t").endswith("\n") or t[:pos].strip() == "") and lay.lstrip(" \t").startswith("\\"):
                    f["finding"] = "C09-lone-continuation"
                fails.append(f)
            elif rng.random() < 0.3:
                same.append(t2)
    # a comment (or CR) placed before the end of a #pragma / #include line changes nothing
    lines = t.split("\n")
    off = 0
    for li, line in enumerate(lines):
        if line.lstrip().startswith("#pragma") or line.lstrip().startswith("#include"):
            for lay in (" // c", " /* c */", "\r", "  "):
                n += 1
                pos = off + len(line)
                t2 = t[:pos] + lay + t[pos:]
                r2 = impl.impl_parse(t2, "f.h")
                if view(r2) != bview:
                    fails.append({"input": t2, "original": t, "gap_at": pos, "layout": lay, "finding": "C09-directive-line",
                                  "diff": "%r before the end of the directive line %r changes the result" % (lay, line.strip())})
        off += len(line) + 1
    return n, counted, fails, same


def run(ctx):
    rng = ctx.rng("layout")
    inputs = [t for t in pcommon.corpus() if not has_doc(t) and "\\\n" not in t]
    # (the last three: the repaired defect 9b2dc7f — a comment behind a multi-declarator statement before a directive line)
    inputs += ["int a, b;\n#pragma once\nint y;\n", "struct S { int a, b;\n#pragma pack(1)\n int c; };\n", "int a = 1, b, *c;\n#include <x.h>\nint y;\n",
               "auto s = \"a\"\"b\"_x;\n", "const char* t = \"x\" \"y\"\"z\"_s;\nint after;\n", "auto u = 1_km+2_km;\n", "auto v = {1_a,2_b};\nauto w = 'c'\"s\"_q;\n",
               "const wchar_t* l = L\"a\"L\"b\"_w;\n", "int x;\n#pragma once\nint y;\n", "struct S { int m;\n#pragma pack(1)\n int n; };\n",
               "enum E { A,\n#pragma region r\n B };\ntypedef int T;\n#pragma endregion\nint z;\n",
               "#pragma omp parallel for schedule(static, 4)\nvoid work(int n);\n",
               "int a;\n#pragma pack(push, 1)\nstruct P { char c; };\n#pragma pack(pop)\nint z;\n",
               "namespace n {\n#pragma warning(disable : 4996)\nint q;\n}\n", "#pragma GCC diagnostic ignored \"-Wall\"\nint d;\n"]
    for _ in range(ctx.budget(60, 400)):
        inputs.append(gen_prog.gen_program(rng, budget=5)[0])
        inputs.append(gen_prog.gen_class_program(rng)[0])
    jobs = [(t, ctx.tier, ctx.escalated, rng.getrandbits(48)) for t in inputs]
    if ctx.tier == "thorough":
        # every gap x every layout of every input: spread over the cores
        import multiprocessing
        with multiprocessing.get_context("fork").Pool(min(14, os.cpu_count() or 1)) as pool:
            results = pool.map(relayout_input, jobs, chunksize=4)
    else:
        results = [relayout_input(j) for j in jobs]
    fails = []
    n = 0
    relayouts = []
    cap = ctx.budget(400, 6000)
    for cases, counted, fl, same in results:
        n += cases
        for key, nontrivial in counted:
            ctx.count(key, nontrivial=nontrivial)
        fails.extend(fl)
        for t2 in same:
            if len(relayouts) < cap:
                relayouts.append(t2)
    kn = {}
    for f in fails:
        if f.get("finding"):
            kn.setdefault(f["finding"], f)
    ctx.oracle("relayout", n, list(kn.values()) + [f for f in fails if not f.get("finding")])
    ctx.sample({"original": "int x = 1;", "layout": "/* c\n c */", "relayout": "int x /* c\n c */= 1;"})
    pcommon.parse_corr(ctx, "parse[relayout]", relayouts, proj=pcommon.proj_structure)


def _w_lone():
    return view(impl.impl_parse("int x;\n\\\nint y;", "f.h")) != view(impl.impl_parse("int x;\nint y;", "f.h"))


def _w_directive():
    return view(impl.impl_parse("#pragma once // c\nint x;", "f.h")) != view(impl.impl_parse("#pragma once\nint x;", "f.h"))


WITNESSES = {"C09-lone-continuation": _w_lone, "C09-directive-line": _w_directive}


def replay(path):
    def recheck(v):
        a = view(impl.impl_parse(v["original"], "f.h"))
        b = view(impl.impl_parse(v["input"], "f.h"))
        if a != b:
            return False, "REPRODUCED: layout %r at %d changes the result of:\n%s" % (v["layout"], v["gap_at"], v["original"])
        return True, "not reproduced"
    return pcommon.generic_replay(path, recheck)
