"""C14 — unparsed values carry exactly the source tokens of their expression."""
import copy

import gen_text
import pcommon
from cxxheaderparser.errors import CxxParseError
from cxxheaderparser.simple import parse_string
from cxxheaderparser.tokfmt import Token
from cxxheaderparser import types as T

TECHNIQUE = 'Lean 4: contiguity theorems for the value collectors (result = given tokens ++ exactly the tokens taken from the stream, in order; stream left right after them) for every state, kernel-decided slicing flags regenerated from the call sites; stop positions decided by correspondence and an expression-grammar oracle per position'
LEAN_TARGET = "CxxModel.Props.C14"
THEOREMS = ["Cxx.C14_balanced_contiguous", "Cxx.C14_value_until_contiguous", "Cxx.C14_value_stops", "Cxx.C14_create_value", "Cxx.C14_inner", "Cxx.C14_value_sites",
            "Cxx.tokLoop_contiguous", "Cxx.tokLoop_complete", "Cxx.consumeBalanced_region", "Cxx.interp_bind", "Cxx.C14_method_noexcept_value", "Cxx.C14_enumerator_values", "Cxx.C14_variable_initializer", "Cxx.C14_unfused_chars", "Cxx.C14_unfused_none", "Cxx.C14_default_argument", "Cxx.C14_initializer_general", "Cxx.toplevel_variable_init_pre"]
ANCHORS = ["lexer.py:LexerTokenStream._fill_tokbuf", "parser.py:CxxParser._parse_template_specialization", "parser.py:CxxParser._consume_value_until", "parser.py:CxxParser._consume_balanced_tokens", "parser.py:CxxParser._create_value",
           "parser.py:CxxParser._parse_fn_end", "parser.py:CxxParser._parse_method_end", "parser.py:CxxParser._parse_array_type",
           "parser.py:CxxParser._parse_pqname_decltype_specifier", "parser.py:CxxParser._parse_requires", "parser.py:CxxParser._parse_requires_segment",
           "parser.py:CxxParser._parse_requires_expr", "parser.py:CxxParser._process_pragma_directive", "parser.py:CxxParser._parse_enumerator_list",
           "parser.py:CxxParser._parse_field", "parser.py:CxxParser._parse_parameter", "parser.py:CxxParser._parse_template_type_parameter",
           "parser.py:CxxParser._parse_template_specialization", "parser.py:CxxParser._parse_concept", "parser.py:CxxParser._parse_template_decl",
           "parser.py:CxxParser._balanced_token_map", "parser.py:CxxParser._end_balanced_tokens", "lexer.py:TokenStream", "tokfmt.py:", "types.py:Value"]
RULE = ("a token-level expression grammar (literals incl. strings/chars holding terminators, binary/unary operators, ternary, "
        "calls, parenthesised comparisons and commas, nested template-ids with commas, braces, subscripts, lambdas) in every "
        "value-bearing position: initializers (=, {}), several declarators, default arguments (first / middle / last), array "
        "sizes (variables, fields, parameters, multi-dimensional), enumerator values (first / last / no trailing comma), "
        "non-type template arguments, template parameter defaults (type and non-type; first / last), noexcept, throw, "
        "requires clauses, concept definitions, decltype (variable, alias, trailing return), field initializers, #pragma; "
        "expected = the generator's own token list with the documented delimiters removed, and everything outside the value "
        "equal to the same declaration written with the value `1`; non-trivial = expression of at least 5 tokens with a bracket")
CARRIED_BY = {
    "a position end to end through the parse loop and the recursive core: in `T ptr-ops x = value ;` the one on_variable carries as value EXACTLY the tokens written between the `=` and the `;` (same types and texts, same order), for every value of top-level shape of any length": "theorems C14_variable_initializer (Theorems/VarInit.lean, FieldForm.lean, TopLevel.lean), C14_default_argument (the default of a parameter `T ptr-ops name = value` is exactly the written tokens), C02_array_declarator (array sizes)",
    "the collectors return the tokens they were given followed by exactly the tokens they took from the stream (same text and type, in order, none dropped or duplicated; a `]]` that closes two `[` appears as the two `]` it stands for, no character changes) and leave the stream right after them": "theorems C14_balanced_contiguous, C14_value_until_contiguous (via tokLoop_contiguous), C14_unfused_chars, C14_unfused_none",
    "`[1:-1]` removes exactly the two delimiters": "theorem C14_inner",
    "positions end to end: a method's `noexcept( content )` holds exactly the content tokens; in enumerator lists of any length every value holds exactly the tokens after its `=` and an enumerator without `=` has none": "theorems C14_method_noexcept_value, C14_enumerator_values",
    "Value construction keeps every token's text and type": "theorem C14_create_value",
    "which delimiters each position strips": "theorems C14_value_sites / value_sites_conform on flags regenerated from the call sites",
    "a value whose top level holds no terminator and no unclosed bracket (terminators inside properly nested brackets allowed) is collected up to, not including, the first top-level terminator": "theorem C14_value_stops (every such value, every terminator set, every stream and parser state)",
    "which terminator set each position uses, values outside that shape (`<` heuristic), and the per-position results": "oracle `positions` + correspondence `parse[values]` (not proof)",
}
ASSUMPTIONS = ["AngleClosed: a `<` at the top level of a value that is not closed by `>` inside the value is the listed finding C14-toplevel-less-than",
               "requires-clauses are written as parenthesised expressions (C14-requires-dblcolon lists the qualified-name defect)"]
MODEL_COVERAGE = "Parser/Basic.lean: consumeValueUntil, consumeBalancedTokens, createValue; value sites in Parser/Core.lean, Parser/Decl.lean"


def toks_of(v):
    if v is None:
        return None
    return [t.value for t in v.tokens]


def seg0(t):
    return t.typename.segments[0]


# (template, extractor(ParsedData) -> object with .tokens, wrap(expected tokens), flags)
P = []


def pos(tmpl, get, wrap=lambda t: t, line=False, noangle_top=False):
    P.append((tmpl, get, wrap, line, noangle_top))


ns = lambda d: d.namespace
pos("int x = %s;\nint after;\n", lambda d: ns(d).variables[0].value)
pos("int x = %s, y = 2;\nint after;\n", lambda d: ns(d).variables[0].value)
pos("int w = 3, x = %s;\nint after;\n", lambda d: ns(d).variables[1].value)
pos("int x{%s};\nint after;\n", lambda d: ns(d).variables[0].value, lambda t: ["{"] + t + ["}"])
pos("static constexpr auto x = %s;\nint after;\n", lambda d: ns(d).variables[0].value)
pos("void f(int p = %s, int q = 7);\nint after;\n", lambda d: ns(d).functions[0].parameters[0].default)
pos("void f(int p, int q = %s);\nint after;\n", lambda d: ns(d).functions[0].parameters[1].default)
pos("void f(int o = 1, int p = %s, int q = 7);\nint after;\n", lambda d: ns(d).functions[0].parameters[1].default)
pos("int a[%s];\nint after;\n", lambda d: ns(d).variables[0].type.size)
pos("int a[%s][2];\nint after;\n", lambda d: ns(d).variables[0].type.size)
pos("int a[2][%s];\nint after;\n", lambda d: ns(d).variables[0].type.array_of.size)
pos("void f(int p[%s]);\nint after;\n", lambda d: ns(d).functions[0].parameters[0].type.size)
pos("enum E { A = %s, B = 2 };\nint after;\n", lambda d: ns(d).enums[0].values[0].value)
pos("enum E { Z, A = %s };\nint after;\n", lambda d: ns(d).enums[0].values[1].value)
pos("enum E { A = %s, B, C = 3, D };\nint after;\n", lambda d: ns(d).enums[0].values[0].value)
pos("struct S { int m = %s, n; int after; };\n", lambda d: ns(d).classes[0].fields[0].value)
pos("void f(int p = %s, int q);\nint after;\n", lambda d: ns(d).functions[0].parameters[0].default)
pos("template <int N = %s, int M> struct S {};\nint after;\n", lambda d: ns(d).classes[0].class_decl.template.params[0].default, noangle_top=True)
pos("enum class E : int { Z = 1, A = %s, };\nint after;\n", lambda d: ns(d).enums[0].values[1].value)
pos("Tmpl<1 + %s> v;\nint after;\n", lambda d: seg0(ns(d).variables[0].type).specialization.args[0].arg, lambda t: ["1", "+"] + t, noangle_top=True)
pos("Tmpl<int, (%s), char> v;\nint after;\n", lambda d: seg0(ns(d).variables[0].type).specialization.args[1].arg, lambda t: ["("] + t + [")"])
pos("template <int N = %s> struct S {};\nint after;\n", lambda d: ns(d).classes[0].class_decl.template.params[0].default, noangle_top=True)
pos("template <int N = %s, int M = 2> struct S {};\nint after;\n", lambda d: ns(d).classes[0].class_decl.template.params[0].default, noangle_top=True)
pos("template <typename T = %s> struct S {};\nint after;\n", lambda d: ns(d).classes[0].class_decl.template.params[0].default, noangle_top=True)
pos("template <typename T = %s, typename U = int> struct S {};\nint after;\n", lambda d: ns(d).classes[0].class_decl.template.params[0].default, noangle_top=True)
pos("template <typename K, class C = %s, template <class> class A = std::allocator> class set;\nint after;\n",
    lambda d: ns(d).forward_decls[0].template.params[1].default, noangle_top=True)
pos("void f() noexcept(%s);\nint after;\n", lambda d: ns(d).functions[0].noexcept)
pos("struct S { void m() noexcept(%s); int after; };\n", lambda d: ns(d).classes[0].methods[0].noexcept)
pos("struct S { void m() throw(%s); int after; };\n", lambda d: ns(d).classes[0].methods[0].throw)
pos("void f() throw(%s);\nint after;\n", lambda d: ns(d).functions[0].throw)
pos("template <typename T> requires (%s)\nvoid f();\nint after;\n", lambda d: ns(d).functions[0].template.raw_requires_pre, lambda t: ["("] + t + [")"])
pos("template <typename T> void f() requires (%s);\nint after;\n", lambda d: ns(d).functions[0].raw_requires, lambda t: ["("] + t + [")"])
pos("template <typename T> concept C = %s;\nint after;\n", lambda d: ns(d).concepts[0].raw_constraint)
pos("decltype(%s) x;\nint after;\n", lambda d: seg0(ns(d).variables[0].type))
pos("using A = decltype(%s);\nint after;\n", lambda d: seg0(ns(d).using_alias[0].type))
pos("auto f() -> decltype(%s);\nint after;\n", lambda d: seg0(ns(d).functions[0].return_type))
pos("struct S { int m = %s; int after; };\n", lambda d: ns(d).classes[0].fields[0].value)
pos("struct S { int m{%s}; int after; };\n", lambda d: ns(d).classes[0].fields[0].value, lambda t: ["{"] + t + ["}"])
pos("struct S { int a[%s]; int after; };\n", lambda d: ns(d).classes[0].fields[0].type.size)
pos("struct S { static constexpr int k = %s; int after; };\n", lambda d: ns(d).classes[0].fields[0].value)
pos("struct S { int b : 3; int c = %s, d = 4; };\n", lambda d: ns(d).classes[0].fields[1].value)
pos("struct S { void m(int p = %s) const; int after; };\n", lambda d: ns(d).classes[0].methods[0].parameters[0].default)
pos("namespace N { int x = %s; }\nint after;\n", lambda d: ns(d).namespaces["N"].variables[0].value)
pos("#pragma %s\nint after;\n", lambda d: d.pragmas[0].content, line=True)
pos("template <typename T> struct S { static const int v = %s; };\nint after;\n", lambda d: ns(d).classes[0].fields[0].value)
pos("typedef int arr_t[%s];\nint after;\n", lambda d: ns(d).typedefs[0].type.size)


def render(rng, toks, line):
    if line:
        return " ".join(toks)
    out = []
    for k, t in enumerate(toks):
        out.append(t)
        # (a line splice directly behind a token, without a blank, is layout too)
        sep = rng.choice([" ", " ", " ", " ", "\n", "  ", " /* c */ ", "\t", "\\\n", " \\\n  ", "\\\n\t"])
        if k + 1 < len(toks):
            out.append(sep)
    return "".join(out)


def render_tight(toks):
    """no layout at all except where two word-like tokens (or a comment start) would otherwise fuse: adjacent
    punctuators DO fuse (`]` `]` -> `]]`, `>` `>` -> `>>`, `:` `:` -> `::`), also with the delimiters of the position"""
    out = ""
    for t in toks:
        if out and t:
            a, b = out[-1], t[0]
            if ((a.isalnum() or a == "_") and (b.isalnum() or b == "_")) or (a == "/" and b in "/*"):
                out += " "
        out += t
    return out


def squeeze(parts):
    return "".join("".join(parts).split())


def top_level_open_angle(toks):
    """a `<` at bracket depth 0 that no `>` at depth 0 closes (the listed `<` heuristic finding)"""
    depth = 0
    opened = 0
    for t in toks:
        if t in ("(", "[", "{"):
            depth += 1
        elif t in (")", "]", "}"):
            depth -= 1
        elif depth == 0 and t == "<":
            opened += 1
        elif depth == 0 and t == ">" and opened:
            opened -= 1
    return opened > 0


def run(ctx):
    rng = ctx.rng("values")
    n = ctx.budget(2500, 120000)
    fails = []
    texts = []
    base = {}
    for tmpl, get, wrap, line, _ in P:
        try:
            d = parse_string(tmpl % "1")
            v = get(d)
            if toks_of(v) != wrap(["1"]):
                fails.append({"input": tmpl % "1", "diff": "value %r, expected %r" % (toks_of(v), wrap(["1"]))})
                continue
            base[tmpl] = d
        except (CxxParseError, AttributeError, IndexError, KeyError) as e:
            fails.append({"input": tmpl % "1", "diff": "position rejected with the value `1`: %s" % str(e)[:200]})
    # positions written without an expression expose None, whatever their neighbours hold
    none_cases = [
        ("enum E { A = 1, B, C = 2, D };", lambda d: [v.value for v in ns(d).enums[0].values][1::2]),
        ("int x = 1, y;", lambda d: [ns(d).variables[1].value]),
        ("struct S { int a = 1; int b; int c{2}, d; };", lambda d: [ns(d).classes[0].fields[1].value, ns(d).classes[0].fields[3].value]),
        ("void f(int a = 1, int b);", lambda d: [ns(d).functions[0].parameters[1].default]),
        ("template <int N = 1, int M, typename T = int, typename U> struct S {};", lambda d: [p_.default for p_ in ns(d).classes[0].class_decl.template.params][1::2]),
        ("void f() noexcept(true); void g();", lambda d: [ns(d).functions[1].noexcept, ns(d).functions[1].throw]),
        ("int a[3]; int b[];", lambda d: [ns(d).variables[1].type.size]),
    ]
    for src, getn in none_cases:
        try:
            got = getn(parse_string(src))
            if any(g is not None for g in got):
                fails.append({"input": src, "diff": "a position without an expression exposes %r" % [toks_of(g) for g in got]})
        except Exception as e:  # noqa
            fails.append({"input": src, "diff": "position not found: %r" % e})
    # pack sizes inside template arguments: the argument is exactly the written tokens
    sz = ["sizeof", "...", "(", "Ts", ")"]
    for operand in (["N"], ["::", "N"], ["1"], ["a", "::", "b"], ["const_v"], ["(", "N", ")"], ["unsigned", "(", "3", ")"]):
        for op in ("+", "*", "-", "%"):
            # (an expression that CONTINUES after `sizeof...(pack)` is rejected by the parser today: not a value position)
            for toks in (operand + [op] + sz, sz, ["("] + operand + [op] + sz + [")", op] + operand):
                for tmpl, getv in (("template <typename... Ts> struct S { Foo<%s> m; };\nint after;\n", lambda d: seg0(ns(d).classes[0].fields[0].type).specialization.args[0].arg),
                                   ("template <typename... Ts> void f(Bar<int, %s> p);\nint after;\n", lambda d: seg0(ns(d).functions[0].parameters[0].type).specialization.args[1].arg),
                                   ("template <typename... Ts> using A = Baz<%s, char>;\nint after;\n", lambda d: seg0(ns(d).using_alias[0].type).specialization.args[0].arg)):
                    text = tmpl % " ".join(toks)
                    texts.append(text)
                    try:
                        got = toks_of(getv(parse_string(text)))
                        if got != toks:
                            fails.append({"input": text, "expr": toks, "diff": "value tokens %r, expected %r" % (got, toks)})
                    except (CxxParseError, AttributeError, IndexError, KeyError) as e:
                        fails.append({"input": text, "expr": toks, "diff": "template argument with a pack size rejected / not a value: %s" % str(e)[:150]})
    ntight = ntight_rejected = 0
    for i in range(n):
        tmpl, get, wrap, line, noangle = P[i % len(P)]
        if tmpl not in base:
            continue
        angle_ops = (not noangle) and rng.random() < 0.1
        toks = gen_text.expression(rng, rng.choice([0, 0, 1, 2]), angle_ops=angle_ops)
        if noangle and (">" in toks[:1]):
            continue
        # one case in seven is written without any layout: neighbouring punctuators fuse into other tokens
        # (also across the delimiters of the position); such an input may be rejected, but when it is accepted
        # the value must still consist of exactly the characters of the expression
        tight = (not line) and i % 7 == 3
        if tight:
            rt = render_tight(toks)
            text = tmpl % ((" " + rt) if (rt[:1].isalnum() or rt[:1] == "_") else rt)
        else:
            text = tmpl % (render(rng, toks, line) if line else " " + render(rng, toks, line) + " ")
        nontrivial = len(toks) >= 5 and any(t in "([{<" for t in toks)
        ctx.count(text, nontrivial=nontrivial)
        texts.append(text)
        finding = "C14-toplevel-less-than" if top_level_open_angle(toks) else None
        f = None
        try:
            d = parse_string(text)
            v = get(d)
            got = toks_of(v)
            if tight:
                ntight += 1
                if got is None or squeeze(got) != squeeze(wrap(toks)):
                    f = {"diff": "value written without layout: exposed characters %r, written %r" % (None if got is None else squeeze(got), squeeze(wrap(toks)))}
            elif got != wrap(toks):
                f = {"diff": "value tokens %r, expected %r" % (got, wrap(toks))}
            else:
                # nothing outside the value may differ from the same declaration with the value `1`
                v.tokens[:] = [Token(x) for x in wrap(["1"])]
                if d != base[tmpl]:
                    f = {"diff": "the rest of the result differs from the declaration written with the value `1`"}
        except CxxParseError as e:
            if tight:
                ntight_rejected += 1   # fused tokens the parser does not take apart: no value is exposed
            else:
                f = {"diff": "rejected: %s" % str(e)[:200]}
        except (AttributeError, IndexError, KeyError, TypeError) as e:
            if tight:
                ntight_rejected += 1   # parsed as something else (e.g. `>>` closing two lists)
            else:
                f = {"diff": "value position not found in the result (%s: %s)" % (type(e).__name__, e)}
        if f:
            f.update({"input": text, "position": tmpl, "expr": toks})
            if finding:
                f["finding"] = finding
            fails.append(f)
    kn = {}
    for f in fails:
        if f.get("finding"):
            kn.setdefault(f["finding"], f)
    ctx.oracle("positions", n, list(kn.values()) + [f for f in fails if not f.get("finding")],
               note="%d values written without layout were accepted and checked character by character, %d more were rejected or parsed as another construct" % (ntight, ntight_rejected))
    ctx.sample({"text": texts[0]})
    # nested subscripts: the lexer fuses `]` `]`, the bracket matcher takes them apart again (model and code alike)
    fused = ["int a[b[0]];", "int x = m[i[0]];", "void f(int p = a[b[1]]);", "int t[b[c[1]]];", "Tmpl<a[b[0]]> v;", "int a[b[0]]]; int z;",
             "struct S { int m[n[0]]; int k = v[w[1]] + 1; };", "int q[[maybe_unused]] = 1;", "[[nodiscard]] int f(int a[b[0]]);", "int y = g(v[w[0]], u[t[0]]);",
             # … also with a less-than still open inside or between the two subscripts (fix 25456e4)
             "int v[a[b < c]];", "int v[a < b[0]];", "int x = m[i[j < 2]];", "int x = m[i < j[k < 2]];", "[[attr([ x [ a < b ]] > y)]] int z;",
             "struct S { int m[n < o[0]]; };", "void f(int p = a[b < c[1]]);"]
    # accepted, and the value is the written tokens (a rejected header would only show as agreement between model and code)
    ffails = []
    for src, want in (("int v[a[b < c]];", "a[b<c]"), ("int v[a < b[0]];", "a<b[0]"), ("int u[a[b[0]]];", "a[b[0]]")):
        try:
            got = parse_string(src).namespace.variables[0].type.size.format()
            if got.replace(" ", "") != want:
                ffails.append({"input": src, "diff": "array size %r, written %r" % (got, want)})
        except CxxParseError as e:
            ffails.append({"input": src, "diff": "valid nested subscript rejected: %s" % e})
    ctx.oracle("nested_subscripts", 3, ffails)
    pcommon.parse_corr(ctx, "parse[values]", fused + texts[: ctx.budget(300, 8000)] + [t for t in pcommon.corpus()][: ctx.budget(60, 300)], proj=pcommon.proj_values)


def _w(src, pred):
    def f():
        try:
            return pred(parse_string(src))
        except CxxParseError:
            return True
    return f


WITNESSES = {
    "C14-requires-dblcolon": _w("template<typename T> requires std::is_arithmetic_v<T> T add(T a, T b);",
                                lambda d: "::" not in [t.value for t in d.namespace.functions[0].template.raw_requires_pre.tokens]),
    "C14-toplevel-less-than": _w("enum E { a = 1 < 2, b = 3 > 2 };", lambda d: len(d.namespace.enums[0].values) != 2),
}


def replay(path):
    def recheck(v):
        return False, "REPRODUCED: %s\n%s" % (v.get("diff"), v["input"])
    return pcommon.generic_replay(path, recheck)
