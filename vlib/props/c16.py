"""C16 — formatted token values re-lex to the same tokens."""
import itertools

import gen_prog
import pcommon
from cxxheaderparser.lexer import LexerTokenStream, PlyLexer
from cxxheaderparser.simple import parse_string
from cxxheaderparser.errors import CxxParseError
from cxxheaderparser.tokfmt import Token, tokfmt
from cxxheaderparser import types as T

TECHNIQUE = 'Lean 4: theorems on tokfmt (values kept, blank rule, word-like tokens always separated) with the spacing table regenerated and re-decided by the kernel; punctuator neighbours decided by an exhaustive re-lex oracle to length 3 and correspondence'
LEAN_TARGET = "CxxModel.Props.C16"
THEOREMS = ["Cxx.C16_values_kept", "Cxx.C16_blank_rule", "Cxx.C16_wide_separated", "Cxx.C16_wide_classes", "Cxx.C16_tokfmt_standard"]
ANCHORS = ["tokfmt.py:", "lexer.py:PlyLexer", "lexer.py:LexerTokenStream._fill_tokbuf", "types.py:Value"]
RULE = ("all ordered pairs over one representative per token class plus every keyword (exhaustive), all triples over the "
        "representatives (quick: a sample; thorough: exhaustive), random sequences of length 4-8, and every Value found in the "
        "corpus and in generated programs; non-trivial = sequence with at least one punctuator next to another token")
CARRIED_BY = {
    "no token text lost/altered; where blanks go": "theorems C16_values_kept, C16_blank_rule (every sequence)",
    "word-like tokens never fuse with each other": "theorems C16_wide_separated + C16_wide_classes (regenerated table)",
    "punctuator neighbours re-lex to themselves (outside the listed finding)": "oracle `relex` exhaustive to length 3 on the implementation + correspondence `tokfmt` (not proof)",
}
ASSUMPTIONS = ["full statement is false on the current tree: known finding C16-fuse (adjacent tokens with no spacing wish fuse)"]
MODEL_COVERAGE = "tokfmt.tokfmt (TokFmt.lean, spacing table regenerated)"

REPS = [("1.5", "FLOAT_CONST"), ("0x1p3", "HEX_FLOAT_CONST"), ("0x1f", "INT_CONST_HEX"), ("0b101", "INT_CONST_BIN"), ("017", "INT_CONST_OCT"),
        ("42", "INT_CONST_DEC"), ("'ab'", "INT_CONST_CHAR"), ("'c'", "CHAR_CONST"), ("L'c'", "WCHAR_CONST"), ("u8'c'", "U8CHAR_CONST"),
        ("u'c'", "U16CHAR_CONST"), ("U'c'", "U32CHAR_CONST"), ('"s"', "STRING_LITERAL"), ('L"s"', "WSTRING_LITERAL"), ('u8"s"', "U8STRING_LITERAL"),
        ('u"s"', "U16STRING_LITERAL"), ('U"s"', "U32STRING_LITERAL"), ("foo", "NAME"), ("_x", "NAME"), ("~", "NAME"), ("~T", "NAME"), ("~0u", "NAME"), ("int", "int"), ("operator", "operator"),
        ("/", "DIVIDE"), ("...", "ELLIPSIS"), ("[[", "DBL_LBRACKET"), ("]]", "DBL_RBRACKET"), ("::", "DBL_COLON"), ("&&", "DBL_AMP"),
        ("||", "DBL_PIPE"), ("->", "ARROW"), ("<<", "SHIFT_LEFT")] + [(c, c) for c in PlyLexer.literals if c not in "\\'"]

NUMS = {"FLOAT_CONST", "HEX_FLOAT_CONST", "INT_CONST_HEX", "INT_CONST_BIN", "INT_CONST_OCT", "INT_CONST_DEC"}
WORDY = NUMS | {"WCHAR_CONST", "U8CHAR_CONST", "U16CHAR_CONST", "U32CHAR_CONST", "WSTRING_LITERAL", "U8STRING_LITERAL",
                "U16STRING_LITERAL", "U32STRING_LITERAL", "NAME"}
# known finding C16-fuse: adjacent (left type, right type) pairs that fuse on the pinned tree
FUSE = {("INT_CONST_OCT", "."), ("INT_CONST_DEC", "."), ("DIVIDE", "DIVIDE"), ("<", "SHIFT_LEFT"), ("<", "<"), ("[", "DBL_LBRACKET"), ("[", "["),
        ("]", "DBL_RBRACKET"), ("]", "]"), (":", "DBL_COLON"), (":", ":"), ("|", "DBL_PIPE"), ("|", "|"), ("-", ">"), ("&", "DBL_AMP"), ("&", "&"),
        (".", "ELLIPSIS")} | {(".", n) for n in NUMS}


def known_fuse(seq):
    kw = PlyLexer.keywords
    for a, b in zip(seq, seq[1:]):
        if (a[1], b[1]) in FUSE:
            return True
        if a[0] == "operator" and (b[1] in WORDY or b[1] in kw):
            return True
    for a, b, c in zip(seq, seq[1:], seq[2:]):
        if a[0] == "." and b[0] == "." and c[0] in (".", "..."):
            return True
    vals = [v for v, _ in seq]
    for i, (a, b) in enumerate(zip(vals, vals[1:])):
        if a == "/" and b == "*" and any(x == "*" and y == "/" for x, y in zip(vals[i + 2:], vals[i + 3:])):
            return True
    return False


def relex(s):
    lx = LexerTokenStream(None, s)
    out = []
    while True:
        t = lx.token_eof_ok()
        if t is None:
            break
        out.append(t.value)
    return out


def check_seq(seq):
    s = tokfmt([Token(v, ty) for v, ty in seq])
    try:
        r = relex(s)
    except Exception as e:  # noqa
        r = ["<%s>" % type(e).__name__]
    if r != [v for v, _ in seq]:
        return {"input": [list(x) for x in seq], "formatted": s, "relexed": r, "diff": "formatted %r lexes back to %r" % (s, r)}
    return None


def values_of(obj, out):
    import dataclasses
    if isinstance(obj, T.Value):
        out.append(obj)
    if dataclasses.is_dataclass(obj):
        for f in dataclasses.fields(obj):
            values_of(getattr(obj, f.name), out)
    elif isinstance(obj, list):
        for x in obj:
            values_of(x, out)
    elif isinstance(obj, dict):
        for x in obj.values():
            values_of(x, out)


def run(ctx):
    rng = ctx.rng("seq")
    fails = []
    n = 0
    # every keyword token type the lexer declares (not only PlyLexer.keywords)
    kws = sorted(set(PlyLexer.keywords) | {t for t in PlyLexer.tokens if not t.isupper()})
    reps = REPS + [(k, k) for k in kws if k not in ("int", "operator")]
    seqs = []
    for a, b in itertools.product(reps, reps):
        seqs.append((a, b))
    if ctx.tier == "thorough":
        for a, b, c in itertools.product(REPS, REPS, REPS):
            seqs.append((a, b, c))
    else:
        for _ in range(20000):
            seqs.append((rng.choice(REPS), rng.choice(REPS), rng.choice(REPS)))
    for _ in range(ctx.budget(3000, 100000)):
        seqs.append(tuple(rng.choice(reps) for _ in range(rng.randint(4, 8))))
    for seq in seqs:
        n += 1
        f = check_seq(seq)
        if f:
            if known_fuse(seq):
                f["finding"] = "C16-fuse"
            fails.append(f)
    ctx.evaluations += n
    for seq in seqs[:: max(1, len(seqs) // 3000)]:
        ctx.count(seq, nontrivial=any(len(v) <= 3 and not v[0].isalnum() for v, _ in seq))
    ctx.extra["exhaustive_pairs"] = len(reps) ** 2
    # only report one witness of the known class
    known = [f for f in fails if f.get("finding")]
    new = [f for f in fails if not f.get("finding")]
    ctx.oracle("relex", n, known[:1] + new, note="%d sequences fall in the known fuse class" % len(known))
    # every Value in corpus / generated programs
    vfails = []
    vals = []
    for t in pcommon.corpus() + [gen_prog.gen_program(rng, budget=6)[0] for _ in range(ctx.budget(100, 3000))]:
        try:
            values_of(parse_string(t), vals)
        except CxxParseError:
            pass
    for v in vals:
        seq = [(tk.value, tk.type) for tk in v.tokens]
        f = check_seq(seq)
        if f:
            if known_fuse(seq):
                f["finding"] = "C16-fuse"
            vfails.append(f)
    known = [f for f in vfails if f.get("finding")]
    ctx.oracle("values_in_programs", len(vals), known[:1] + [f for f in vfails if not f.get("finding")])
    ctx.sample({"sequence": [["a", "NAME"], ["[", "["], ["b", "NAME"], ["[", "["], ["0", "INT_CONST_OCT"], ["]", "]"], ["]", "]"]], "formatted": "a[b[0]]"})
    if ctx.driver is not None:
        sub = seqs[:: max(1, len(seqs) // ctx.budget(3000, 30000))]
        res = ctx.driver.run([{"op": "tokfmt", "toks": [list(x) for x in s]} for s in sub])
        mism = []
        for s, r in zip(sub, res):
            e = tokfmt([Token(v, ty) for v, ty in s])
            if e != r["s"]:
                mism.append({"input": [list(x) for x in s], "diff": "impl %r model %r" % (e, r["s"])})
        ctx.corr("tokfmt", len(sub), mism)


def replay(path):
    def recheck(v):
        f = check_seq([tuple(x) for x in v["input"]])
        if f:
            return False, "REPRODUCED: " + f["diff"]
        return True, "not reproduced"
    return pcommon.generic_replay(path, recheck)
