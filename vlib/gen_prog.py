"""
gen_prog.py — AST-first generator of namespace-scope programs (C01) and class bodies (C03).

Every generated item is a pair (source text, function that adds the *expected* objects to
the expected scope).  The expected ParsedData is built from cxxheaderparser's own dataclasses
by the generator's knowledge of what it wrote — never by parsing.
"""
import os
import sys

REPO = os.environ.get("VERIF_REPO", "/repo")
if REPO not in sys.path:
    sys.path.insert(0, REPO)

from cxxheaderparser import types as T  # noqa: E402
from cxxheaderparser import simple as S  # noqa: E402

import gen_cpp as G  # noqa: E402
from gen_cpp import value, pq_name, fund  # noqa: E402


class Ctx:
    """naming + anonymous id bookkeeping for one program"""

    def __init__(self, rng):
        self.rng = rng
        self.n = 0
        self.anon = 0
        self.forms = {}

    def name(self, prefix="n"):
        self.n += 1
        return "%s%d" % (prefix, self.n)

    def form(self, f):
        self.forms[f] = self.forms.get(f, 0) + 1


EXPRS = [
    (["1"], "1"), (["0x1f"], "0x1f"), (["a", "+", "b"], "a + b"), (["f", "(", "1", ",", "2", ")"], "f(1, 2)"),
    (["sizeof", "(", "int", ")"], "sizeof(int)"), (["{", "1", ",", "2", "}"], "{1, 2}"),
    (["X", "<", "int", ">", "::", "v"], "X<int>::v"), (["(", "a", "<", "b", ")"], "(a < b)"),
    (["\"s\""], "\"s\""), (["'c'"], "'c'"), (["1.5"], "1.5"), (["-", "1"], "-1"), (["nullptr"], "nullptr"),
    (["a", "[", "2", "]"], "a[2]"), (["x", "->", "y"], "x->y"), (["1", "<<", "3"], "1 << 3"),
    (["std", "::", "numeric_limits", "<", "int", ">", "::", "max", "(", ")"], "std::numeric_limits<int>::max()"),
    # several less-than operators inside one bracket group (the bracket matcher's `<` heuristic pops back to the opener)
    (["{", "a", "<", "1", "&&", "b", "<", "2", "}"], "{a < 1 && b < 2}"),
    (["(", "a", "<", "1", "||", "b", "<", "2", "||", "c", "<", "3", ")"], "(a < 1 || b < 2 || c < 3)"),
    (["f", "(", "a", "<", "b", ",", "c", "<", "d", ")"], "f(a < b, c < d)"),
    (["{", "(", "a", "<", "b", ")", "&&", "c", "<", "d", ",", "e", "<", "f", "}"], "{(a < b) && c < d, e < f}"),
    (["g", "[", "a", "<", "b", "?", "c", "<", "d", ":", "0", "]"], "g[a < b ? c < d : 0]"),
    (["h", "(", "k", "(", "a", "<", "b", ")", ",", "c", "<", "d", ")"], "h(k(a < b), c < d)"),
]

DECORATIONS = ["[[nodiscard]]", "[[gnu::unused]] ", "static_assert(sizeof(int) == 4, \"m\");", ";",
               "__attribute__((unused))", "alignas(8)", "[[deprecated(\"x (y) ]\")]]", "__declspec(dllexport)"]


def expr(ctx):
    toks, text = ctx.rng.choice(EXPRS)
    return value(*toks), text


def gen_var(ctx, tg, in_class=False, access=None):
    """one declaration with 1-3 declarators sharing a base type"""
    r = ctx.rng
    ctx.form("field" if in_class else "variable")
    base = tg.base()
    n = r.choice([1, 1, 1, 2, 3])
    specs = {}
    spec_txt = ""
    if not in_class:
        for s in ("static", "extern", "constexpr", "inline"):
            if r.random() < 0.12 and not (s == "extern" and "static" in specs) and not (s == "static" and "extern" in specs):
                specs[s] = True
                spec_txt += s + " "
    else:
        for s in ("static", "constexpr", "mutable", "inline"):
            if r.random() < 0.1 and not (s == "mutable" and ("static" in specs or "constexpr" in specs)) and not (s in ("static", "constexpr") and "mutable" in specs):
                specs[s] = True
                spec_txt += s + " "
    decls = []
    objs = []
    for i in range(n):
        name = ctx.name("v")
        depth = r.choice([0, 0, 1, 1, 2, 3])
        t = _decorate(tg, base, depth)
        init_v, init_t = (None, "")
        bits = None
        k = r.random()
        if isinstance(t, (T.Reference, T.MoveReference)):
            k = 1.0 if k > 0.5 else k
        if k < 0.3:
            init_v, txt = expr(ctx)
            if txt.startswith("{"):
                init_t = txt  # brace initializer: the braces are part of the value
                txt2 = txt
                init_t = " " + txt2
            else:
                init_t = " = " + txt
        elif in_class and k < 0.4 and isinstance(t, T.Type) and not specs:
            bits = r.randint(1, 31)
            init_t = " : %d" % bits
        d = G.print_declarator(t, name)
        # the shared base is printed once: strip it from later declarators
        decls.append((t, name, d, init_t))
        if in_class:
            objs.append(T.Field(access=access, type=t, name=name, value=init_v, bits=bits,
                                constexpr=specs.get("constexpr", False), mutable=specs.get("mutable", False),
                                static=specs.get("static", False), inline=specs.get("inline", False)))
        else:
            objs.append(T.Variable(pq_name(name), t, init_v, constexpr=specs.get("constexpr", False),
                                   extern=specs.get("extern", False), static=specs.get("static", False),
                                   inline=specs.get("inline", False)))
    base_txt = G.print_declarator(base, "")
    parts = []
    for (t, name, d, init_t) in decls:
        assert d.startswith(base_txt), (d, base_txt)
        parts.append(d[len(base_txt):].strip() + init_t)
    text = spec_txt + base_txt + " " + ", ".join(parts) + ";"
    return text, objs


def _decorate(tg, base, depth):
    """decorators on top of a given base `Type` (copied)"""
    t = T.Type(base.typename, base.const, base.volatile)
    r = tg.rng
    for lvl in range(depth):
        choices = ["ptr", "ptr", "arr"]
        if lvl == depth - 1:
            choices += ["ref", "mref"]
        if not isinstance(t, (T.Array, T.FunctionType)):
            choices.append("fn")
        t = tg.wrap(t, r.choice(choices))
    return t


def gen_params(ctx, tg, allow_default=True):
    r = ctx.rng
    n = r.choice([0, 0, 1, 2, 3])
    params = []
    for i in range(n):
        t = tg.gen(r.choice([0, 0, 1, 1, 2]))
        name = ctx.name("p") if r.random() < 0.7 else None
        default = None
        if allow_default and r.random() < 0.2 and not isinstance(t, (T.Array,)):
            default, _ = expr(ctx)
            if default.tokens[0].value == "{":
                default = value("1")
        params.append(T.Parameter(t, name=name, default=default))
    vararg = n > 0 and r.random() < 0.08
    return params, vararg


def print_params(params, vararg):
    ps = ", ".join(G.print_param(p) for p in params)
    if vararg:
        ps = ps + ", ..." if ps else "..."
    return ps


def gen_return_type(tg):
    r = tg.rng
    t = tg.base()
    for _ in range(r.choice([0, 0, 1, 2])):
        t = T.Pointer(t, const=r.random() < 0.2)
    if r.random() < 0.2:
        t = T.Reference(t)
    return t


def gen_function(ctx, tg, in_class=False, access=None, cls_name=None):
    r = ctx.rng
    ctx.form("method" if in_class else "function")
    name = ctx.name("f")
    ret = gen_return_type(tg)
    params, vararg = gen_params(ctx, tg)
    kw = {}
    pre = ""
    post = ""
    if not in_class:
        for s in ("static", "inline", "constexpr", "extern"):
            if r.random() < 0.12 and not (s == "extern" and "static" in kw) and not (s == "static" and "extern" in kw):
                kw[s] = True
                pre += s + " "
    else:
        for s in ("static", "inline", "constexpr", "virtual", "explicit"):
            if r.random() < 0.12 and not (s == "virtual" and "static" in kw) and not (s == "static" and "virtual" in kw) and s != "explicit":
                kw[s] = True
                pre += s + " "
    trailing = r.random() < 0.12
    mkw = {}
    if in_class:
        if "static" not in kw:
            if r.random() < 0.3:
                mkw["const"] = True
                post += " const"
            if r.random() < 0.08:
                mkw["volatile"] = True
                post += " volatile"
            if r.random() < 0.1:
                q = r.choice(["&", "&&"])
                mkw["ref_qualifier"] = q
                post += " " + q
    k = r.random()
    if k < 0.15:
        kw["noexcept"] = value()
        post += " noexcept"
    elif k < 0.25:
        kw["noexcept"] = value("a", "<", "b", ">", "::", "c")
        post += " noexcept(a<b>::c)"
    elif k < 0.32:
        kw["throw"] = value("int")
        post += " throw(int)"
    if in_class and kw.get("virtual"):
        k2 = r.random()
        if k2 < 0.3:
            mkw["override"] = True
            post += " override"
        elif k2 < 0.5:
            mkw["final"] = True
            post += " final"
    decl_ret = ret
    if trailing:
        post += " -> " + G.print_declarator(ret, "")
        ret_txt = "auto"
        kw["has_trailing_return"] = True
    else:
        ret_txt = None
    tail = ";"
    k3 = r.random()
    if trailing:
        # the parser consumes a body (or nothing) right after a trailing return type
        if k3 < 0.4:
            kw["has_body"] = True
            tail = " { return x; }"
    elif k3 < 0.25:
        kw["has_body"] = True
        tail = " { if (a) { b(\"}\"); } }"
    elif k3 < 0.32:
        kw["deleted"] = True
        tail = " = delete;"
    elif in_class and kw.get("virtual") and k3 < 0.5:
        mkw["pure_virtual"] = True
        tail = " = 0;"
    elif in_class and k3 < 0.4 and False:
        pass
    if ret_txt is None:
        head = G.print_declarator(decl_ret, name + "(" + print_params(params, vararg) + ")")
    else:
        head = ret_txt + " " + name + "(" + print_params(params, vararg) + ")"
    text = pre + head + post + tail
    if in_class:
        obj = T.Method(ret, pq_name(name), params, vararg, access=access, **kw, **mkw)
    else:
        obj = T.Function(ret, pq_name(name), params, vararg, **kw)
    return text, obj


def gen_typedef(ctx, tg, access=None):
    r = ctx.rng
    ctx.form("typedef")
    base = tg.base()
    n = r.choice([1, 1, 2])
    parts = []
    objs = []
    base_txt = G.print_declarator(base, "")
    for i in range(n):
        name = ctx.name("t")
        t = _decorate(tg, base, r.choice([0, 1, 1, 2]))
        d = G.print_declarator(t, name)
        parts.append(d[len(base_txt):].strip())
        objs.append(T.Typedef(t, name, access))
    return "typedef " + base_txt + " " + ", ".join(parts) + ";", objs


def gen_using_alias(ctx, tg, access=None):
    ctx.form("using_alias")
    name = ctx.name("A")
    # arrays in alias position are not supported by the parser (documented limit)
    t = tg.base()
    r = ctx.rng
    for _ in range(r.choice([0, 1, 2])):
        t = T.Pointer(t, const=r.random() < 0.2)
    if r.random() < 0.2:
        t = T.Reference(t)
    return "using %s = %s;" % (name, G.print_declarator(t, "")), T.UsingAlias(name, t, access=access)


def gen_enum(ctx, access=None):
    r = ctx.rng
    ctx.form("enum")
    name = ctx.name("E")
    key = r.choice(["enum", "enum class", "enum struct"])
    base = None
    base_txt = ""
    if r.random() < 0.3:
        b = r.choice(["int", "unsigned char", "std::uint8_t"])
        base = fund(b) if "::" not in b else pq_name(b)
        base_txt = " : " + b
    vals = []
    parts = []
    for i in range(r.randint(0, 4)):
        vn = ctx.name("k")
        if r.random() < 0.4:
            v, txt = expr(ctx)
            if txt.startswith("{"):
                v, txt = value("1"), "1"
            vals.append(T.Enumerator(vn, v))
            parts.append("%s = %s" % (vn, txt))
        else:
            vals.append(T.Enumerator(vn))
            parts.append(vn)
    trailing_comma = "," if parts and r.random() < 0.3 else ""
    text = "%s %s%s { %s%s };" % (key, name, base_txt, ", ".join(parts), trailing_comma)
    tn = T.PQName([T.NameSpecifier(name)], classkey=key)
    return text, T.EnumDecl(tn, vals, base=base, access=access)


def gen_fwd(ctx, access=None):
    r = ctx.rng
    ctx.form("forward_decl")
    key = r.choice(["class", "struct", "union", "enum class"])
    name = ctx.name("F")
    if key == "enum class" and r.random() < 0.5:
        return "%s %s : int;" % (key, name), T.ForwardDecl(T.PQName([T.NameSpecifier(name)], classkey=key), enum_base=fund("int"), access=access)
    return "%s %s;" % (key, name), T.ForwardDecl(T.PQName([T.NameSpecifier(name)], classkey=key), access=access)


def gen_template_head(ctx, tg):
    r = ctx.rng
    ctx.form("template")
    n = r.randint(1, 3)
    params = []
    parts = []
    for i in range(n):
        k = r.random()
        pname = ctx.name("T")
        if k < 0.5:
            key = r.choice(["typename", "class"])
            pack = r.random() < 0.15
            default = None
            dtxt = ""
            if not pack and r.random() < 0.2:
                default = value("std", "::", "less", "<", "int", ">")
                dtxt = " = std::less<int>"
            params.append(T.TemplateTypeParam(key, pname, pack, default))
            parts.append("%s%s %s%s" % (key, "..." if pack else "", pname, dtxt))
        elif k < 0.85:
            t = T.Type(fund(r.choice(["int", "unsigned", "bool", "char"])))
            default = None
            dtxt = ""
            if r.random() < 0.25:
                default = value("3")
                dtxt = " = 3"
            params.append(T.TemplateNonTypeParam(t, pname, default))
            parts.append("%s %s%s" % (G.print_declarator(t, ""), pname, dtxt))
        else:
            inner = T.TemplateDecl([T.TemplateTypeParam("typename")])
            params.append(T.TemplateTypeParam("class", pname, False, None, inner))
            parts.append("template <typename> class %s" % pname)
    return "template <%s>" % ", ".join(parts), T.TemplateDecl(params)


class Scope:
    """expected side of a namespace scope"""

    def __init__(self, ns: S.NamespaceScope):
        self.ns = ns


def gen_items(ctx, tg, scope: S.NamespaceScope, data: S.ParsedData, depth=0, budget=8):
    """a sequence of namespace-scope items: returns list of source lines; fills `scope`"""
    r = ctx.rng
    lines = []
    n = r.randint(1, budget)
    for _ in range(n):
        if r.random() < 0.12:
            lines.append(r.choice(DECORATIONS if depth >= 0 else DECORATIONS) if r.random() < 0.5 else ";")
            # a decoration is followed by something it can attach to
            if lines[-1] not in (";",) and not lines[-1].startswith("static_assert"):
                txt, objs = gen_var(ctx, tg)
                lines[-1] = lines[-1] + " " + txt
                scope.variables.extend(objs)
            continue
        k = r.random()
        if k < 0.22:
            txt, objs = gen_var(ctx, tg)
            lines.append(txt)
            scope.variables.extend(objs)
        elif k < 0.40:
            txt, obj = gen_function(ctx, tg)
            lines.append(txt)
            scope.functions.append(obj)
        elif k < 0.48:
            txt, objs = gen_typedef(ctx, tg)
            lines.append(txt)
            scope.typedefs.extend(objs)
        elif k < 0.54:
            txt, obj = gen_using_alias(ctx, tg)
            lines.append(txt)
            scope.using_alias.append(obj)
        elif k < 0.58:
            ctx.form("using_namespace")
            nm = r.choice(["std", "a::b", "::c"])
            lines.append("using namespace %s;" % nm)
            scope.using_ns.append(S.UsingNamespace(nm))
        elif k < 0.62:
            ctx.form("using_decl")
            nm = r.choice(["std::string", "::foo", "a::b::c"])
            lines.append("using %s;" % nm)
            scope.using.append(T.UsingDecl(pq_name(nm)))
        elif k < 0.69:
            txt, obj = gen_enum(ctx)
            lines.append(txt)
            scope.enums.append(obj)
        elif k < 0.74:
            txt, obj = gen_fwd(ctx)
            lines.append(txt)
            scope.forward_decls.append(obj)
        elif k < 0.82 and depth < 3:
            kind = r.random()
            if kind < 0.5:
                ctx.form("namespace")
                nm = ctx.name("N") if r.random() < 0.8 else r.choice(["R1", "R2"])  # R*: re-opened namespaces
                inline = r.random() < 0.15
                sub = scope.namespaces.get(nm)
                if sub is None:
                    sub = S.NamespaceScope(nm)
                    scope.namespaces[nm] = sub
                sub.inline = inline
                sub.doxygen = None
                inner = gen_items(ctx, tg, sub, data, depth + 1, budget=4)
                lines.append(("inline " if inline else "") + "namespace %s {" % nm)
                lines.extend("  " + l for l in inner)
                lines.append("}")
            elif kind < 0.65:
                ctx.form("nested_namespace")
                existing = [k for k in scope.namespaces if k]
                a = r.choice(existing) if existing and r.random() < 0.5 else ctx.name("N")
                b = r.choice(["M1", "M2"]) if r.random() < 0.4 else ctx.name("N")
                sa = scope.namespaces.setdefault(a, S.NamespaceScope(a))
                sb = sa.namespaces.setdefault(b, S.NamespaceScope(b))
                inner = gen_items(ctx, tg, sb, data, depth + 2, budget=3)
                lines.append("namespace %s::%s {" % (a, b))
                lines.extend("  " + l for l in inner)
                lines.append("}")
            elif kind < 0.75:
                ctx.form("anonymous_namespace")
                sub = scope.namespaces.setdefault("", S.NamespaceScope(""))
                inner = gen_items(ctx, tg, sub, data, depth + 1, budget=3)
                lines.append("namespace {")
                lines.extend("  " + l for l in inner)
                lines.append("}")
            else:
                ctx.form("extern_block")
                inner = gen_items(ctx, tg, scope, data, depth + 1, budget=3)
                lines.append('extern "C" {')
                lines.extend("  " + l for l in inner)
                lines.append("}")
        elif k < 0.85:
            ctx.form("namespace_alias")
            al = ctx.name("AL")
            lines.append("namespace %s = a::b;" % al)
            scope.ns_alias.append(T.NamespaceAlias(al, ["a", "b"]))
        elif k < 0.92:
            head, tmpl = gen_template_head(ctx, tg)
            kk = r.random()
            if kk < 0.5:
                txt, obj = gen_function(ctx, tg)
                obj.template = tmpl
                lines.append(head + " " + txt)
                scope.functions.append(obj)
            elif kk < 0.75:
                txt, obj = gen_using_alias(ctx, tg)
                obj.template = tmpl
                lines.append(head + " " + txt)
                scope.using_alias.append(obj)
            else:
                txt, obj = gen_fwd(ctx)
                if obj.typename.classkey.startswith("enum"):
                    txt, obj = "struct ZZ%d;" % ctx.n, T.ForwardDecl(T.PQName([T.NameSpecifier("ZZ%d" % ctx.n)], classkey="struct"))
                obj.template = tmpl
                lines.append(head + " " + txt)
                scope.forward_decls.append(obj)
        elif k < 0.95:
            ctx.form("include_pragma")
            if r.random() < 0.5:
                f = r.choice(["<vector>", '"a/b.h"'])
                lines.append("#include %s" % f)
                data.includes.append(S.Include(f))
            else:
                lines.append("#pragma once")
                data.pragmas.append(S.Pragma(value("once")))
        elif k < 0.975:
            ctx.form("extern_linkage")
            txt, obj = gen_function(ctx, tg)
            if "static " in txt or "extern " in txt:
                continue
            obj.extern = True
            lines.append('extern "C" ' + txt)
            scope.functions.append(obj)
        else:
            ctx.form("template_inst")
            nm = ctx.name("I")
            ext = r.random() < 0.5
            lines.append(("extern " if ext else "") + "template class %s<int>;" % nm)
            tn = T.PQName([T.NameSpecifier(nm, T.TemplateSpecialization([T.TemplateArgument(T.Type(fund("int")))]))])
            scope.template_insts.append(T.TemplateInst(tn, ext))
    return lines


def gen_program(rng, budget=8):
    ctx = Ctx(rng)
    tg = G.TypeGen(rng)
    data = S.ParsedData()
    lines = gen_items(ctx, tg, data.namespace, data, 0, budget)
    return "\n".join(lines) + "\n", data, ctx.forms


# --------------------------------------------------------------------------------------
# class bodies (C03)
# --------------------------------------------------------------------------------------

def gen_bases(ctx, default_access):
    r = ctx.rng
    n = r.choice([0, 0, 1, 2, 3])
    bases = []
    parts = []
    for i in range(n):
        nm = r.choice(["B1", "ns::B2", "B3<int>", "::B4"])
        if nm == "B3<int>":
            tn = T.PQName([T.NameSpecifier("B3", T.TemplateSpecialization([T.TemplateArgument(T.Type(fund("int")))]))])
        else:
            tn = pq_name(nm)
        acc = default_access
        virt = False
        txt = []
        order = r.random()
        a = r.choice([None, "public", "protected", "private"])
        v = r.random() < 0.3
        if order < 0.5:
            if v:
                txt.append("virtual")
            if a:
                txt.append(a)
        else:
            if a:
                txt.append(a)
            if v:
                txt.append("virtual")
        if a:
            acc = a
        virt = v
        pack = r.random() < 0.08
        parts.append(" ".join(txt + [nm]) + ("..." if pack else ""))
        bases.append(T.BaseClass(acc, tn, virt, pack))
    return (" : " + ", ".join(parts)) if parts else "", bases


def gen_class(ctx, tg, parent_list, outer_access, depth=0, anon_ok=True):
    """a class definition; appends the expected ClassScope to `parent_list`; returns
    (lines, trailing objects description) — trailing declarators are handled by the caller"""
    r = ctx.rng
    ctx.form("class")
    key = r.choice(["class", "struct", "struct", "union"])
    default_access = "private" if key == "class" else "public"
    anonymous = anon_ok and depth > 0 and r.random() < 0.15 and key != "class"
    name = None if anonymous else ctx.name("C")
    final = (not anonymous) and r.random() < 0.1
    bases_txt, bases = ("", []) if (anonymous or key == "union") else gen_bases(ctx, default_access)
    if anonymous:
        ctx.anon += 1
        tn = T.PQName([T.AnonymousName(ctx.anon)], classkey=key)
    else:
        tn = T.PQName([T.NameSpecifier(name)], classkey=key)
    # class template specializations (the class's own name carries template arguments): constructors,
    # destructors and access tracking must work exactly as for a plain name
    head = ""
    name_txt = name
    tmpl = None
    specialized = (not anonymous) and depth == 0 and key != "union" and r.random() < 0.15
    if specialized:
        ctx.form("class_specialization")
        kind = r.choice(["full", "partial_ptr", "partial_val"])
        if kind == "full":
            head, tmpl = "template <> ", T.TemplateDecl([])
            args, name_txt = [T.TemplateArgument(T.Type(fund("int")))], "%s<int>" % name
        elif kind == "partial_ptr":
            head, tmpl = "template <typename T> ", T.TemplateDecl([T.TemplateTypeParam("typename", "T")])
            args, name_txt = [T.TemplateArgument(T.Pointer(T.Type(pq_name("T"))))], "%s<T*>" % name
        else:
            head, tmpl = "template <typename T> ", T.TemplateDecl([T.TemplateTypeParam("typename", "T")])
            args, name_txt = [T.TemplateArgument(T.Type(pq_name("T"))), T.TemplateArgument(value("3"))], "%s<T, 3>" % name
        tn = T.PQName([T.NameSpecifier(name, T.TemplateSpecialization(args))], classkey=key)
    decl = T.ClassDecl(tn, bases, template=tmpl, final=final, access=outer_access)
    scope = S.ClassScope(decl)
    scope._no_trailing = specialized
    parent_list.append(scope)
    lines = ["%s%s%s%s%s {" % (head, key, (" " + name_txt) if name else "", " final" if final else "", bases_txt)]
    access = default_access
    n = r.randint(0, 7)
    forced = [0.60, 0.60, 0.60] if specialized else []   # special members in every specialized class
    for _ in range(n + len(forced)):
        k = forced.pop() if forced else r.random()
        if k < 0.18:
            a = r.choice(["public", "protected", "private"])
            access = a
            lines.append("%s:" % a)
            ctx.form("access_spec")
        elif k < 0.40:
            txt, objs = gen_var(ctx, tg, in_class=True, access=access)
            lines.append("  " + txt)
            scope.fields.extend(objs)
        elif k < 0.58:
            txt, obj = gen_function(ctx, tg, in_class=True, access=access)
            lines.append("  " + txt)
            scope.methods.append(obj)
        elif k < 0.66 and name:
            ctx.form("special_member")
            kk = r.random()
            if kk < 0.4:
                params, vararg = gen_params(ctx, tg)
                explicit = r.random() < 0.3
                tail, kw = r.choice([(";", {}), (" = default;", {"default": True}), (" = delete;", {"deleted": True}),
                                     (" : a(1), b{2} {}", {"has_body": True}), (" {}", {"has_body": True}),
                                     (" : Bs(v)... {}", {"has_body": True}), (" : x(1), Bs{v}... { y; }", {"has_body": True}),
                                     (" : ::ns::Base(1), Tmpl<int, 3>(2), c{3} { x; }", {"has_body": True}),
                                     (" : decltype(m_){x}, d(f(1, 2)) {}", {"has_body": True}), (" : a([]{ return 1; }()) { }", {"has_body": True}),
                                     (" noexcept : a(1) {}", {"has_body": True, "noexcept": T.Value([])})])
                lines.append("  %s%s(%s)%s" % ("explicit " if explicit else "", name, print_params(params, vararg), tail))
                scope.methods.append(T.Method(None, pq_name(name), params, vararg, access=access, constructor=True, explicit=explicit, **kw))
            elif kk < 0.6:
                virt = r.random() < 0.5
                tail, kw = r.choice([(";", {}), (" = default;", {"default": True}), (" {}", {"has_body": True})])
                lines.append("  %s~%s()%s" % ("virtual " if virt else "", name, tail))
                scope.methods.append(T.Method(None, pq_name("~" + name), [], access=access, destructor=True, virtual=virt, **kw))
            elif kk < 0.8:
                op = r.choice(["+", "==", "[]", "()", "<<", "->", "+=", "!"])
                ret = gen_return_type(tg)
                params, vararg = gen_params(ctx, tg, allow_default=False)
                lines.append("  " + G.print_declarator(ret, "operator%s(%s)" % (op, print_params(params, False))) + ";")
                scope.methods.append(T.Method(ret, pq_name("operator" + op), params, access=access, operator=op))
            else:
                ret = gen_return_type(tg)
                if isinstance(ret, T.Reference):
                    ret = ret.ref_to
                explicit = r.random() < 0.3
                lines.append("  %soperator %s() const;" % ("explicit " if explicit else "", G.print_declarator(ret, "")))
                scope.methods.append(T.Method(ret, pq_name("operator"), [], access=access, operator="conversion", const=True, explicit=explicit))
        elif k < 0.72:
            ctx.form("friend")
            if r.random() < 0.5:
                fk = r.choice(["class", "struct"])
                fn = ctx.name("Fr")
                lines.append("  friend %s %s;" % (fk, fn))
                scope.friends.append(T.FriendDecl(cls=T.ForwardDecl(T.PQName([T.NameSpecifier(fn)], classkey=fk), access=access)))
            else:
                txt, obj = gen_function(ctx, tg, in_class=True, access=access)
                if "virtual " in txt or "static " in txt or " override" in txt or " final" in txt or " = 0" in txt:
                    continue
                lines.append("  friend " + txt)
                scope.friends.append(T.FriendDecl(fn=obj))
        elif k < 0.78:
            txt, objs = gen_typedef(ctx, tg, access=access)
            lines.append("  " + txt)
            scope.typedefs.extend(objs)
        elif k < 0.82:
            txt, obj = gen_using_alias(ctx, tg, access=access)
            lines.append("  " + txt)
            scope.using_alias.append(obj)
        elif k < 0.85:
            ctx.form("using_decl_in_class")
            nm = r.choice(["Base::foo", "B1::B1"])
            lines.append("  using %s;" % nm)
            scope.using.append(T.UsingDecl(pq_name(nm), access=access))
        elif k < 0.89:
            txt, obj = gen_enum(ctx, access=access)
            lines.append("  " + txt)
            scope.enums.append(obj)
        elif k < 0.92:
            txt, obj = gen_fwd(ctx, access=access)
            if obj.typename.classkey.startswith("enum") and obj.enum_base is None:
                pass
            lines.append("  " + txt)
            scope.forward_decls.append(obj)
        elif depth < 3:
            inner_lines, inner_scope, inner_tn = gen_class(ctx, tg, scope.classes, access, depth + 1)
            # trailing declarators of the nested class are fields of this class
            tail_txt, fields = gen_trailing(ctx, tg, inner_tn, access, inner_scope)
            inner_lines[-1] = inner_lines[-1] + tail_txt
            lines.extend("  " + l for l in inner_lines)
            scope.fields.extend(fields)
    lines.append("}")
    return lines, scope, tn


def gen_trailing(ctx, tg, tn, access, inner_scope):
    """what follows the closing brace of a class nested in a class: `;`, or declarators"""
    r = ctx.rng
    anon = isinstance(tn.segments[-1], T.AnonymousName)
    k = r.random()
    if k < 0.6:
        if anon and tn.classkey in ("union", "struct"):
            # anonymous struct/union without declarators: promoted to an unnamed field
            return ";", [T.Field(access=access, type=T.Type(tn))]
        return ";", []
    ctx.form("trailing_declarators")
    n = r.choice([1, 2])
    parts = []
    fields = []
    for i in range(n):
        nm = ctx.name("d")
        base = T.Type(tn)
        t = base
        txt = nm
        if r.random() < 0.4:
            t = T.Pointer(base)
            txt = "*" + nm
        elif r.random() < 0.2:
            t = T.Array(base, value("2"))
            txt = nm + "[2]"
        parts.append(txt)
        fields.append(T.Field(access=access, type=t, name=nm))
    return " " + ", ".join(parts) + ";", fields


def gen_class_program(rng):
    """a few top-level classes (with trailing declarators becoming variables)"""
    ctx = Ctx(rng)
    tg = G.TypeGen(rng)
    data = S.ParsedData()
    lines = []
    for _ in range(rng.randint(1, 3)):
        cl, scope, tn = gen_class(ctx, tg, data.namespace.classes, None, 0, anon_ok=False)
        k = rng.random()
        if k < 0.65 or getattr(scope, "_no_trailing", False):
            cl[-1] += ";"
        elif k < 0.8 and cl[0].lstrip().split(" ", 1)[0] in ("struct", "class", "union"):
            # `typedef struct N { … } Alias, *PAlias;` — the class is the type of a typedef; its members are read as in any class
            nm = ctx.name("Td")
            ctx.form("typedef_class")
            cl[0] = "typedef " + cl[0].lstrip()
            if rng.random() < 0.5:
                cl[-1] += " " + nm + ";"
                data.namespace.typedefs.append(T.Typedef(T.Type(tn), nm))
            else:
                nm2 = ctx.name("PTd")
                cl[-1] += " " + nm + ", *" + nm2 + ";"
                data.namespace.typedefs.append(T.Typedef(T.Type(tn), nm))
                data.namespace.typedefs.append(T.Typedef(T.Pointer(T.Type(tn)), nm2))
        else:
            nm = ctx.name("g")
            ctx.form("trailing_declarators")
            t = T.Pointer(T.Type(tn)) if rng.random() < 0.5 else T.Type(tn)
            cl[-1] += " " + ("*" if isinstance(t, T.Pointer) else "") + nm + ";"
            data.namespace.variables.append(T.Variable(pq_name(nm), t))
        lines.extend(cl)
        if rng.random() < 0.4:
            txt, objs = gen_var(ctx, tg)
            lines.append(txt)
            data.namespace.variables.extend(objs)
    return "\n".join(lines) + "\n", data, ctx.forms
