#!/usr/bin/env python3
"""
check.py — `./check <Cnn> <quick|thorough> [--replay <file>]`

Decides one property on /repo's current working tree:

 1. regenerate lean/CxxModel/Gen/*.lean from the source (translator, vlib/extract.py);
 2. `lake build` the property's own Lean target (its theorems, re-checked against the
    regenerated tables) and the driver; audit `#print axioms` of every listed theorem;
 3. run the property's correspondences (model executable definitions vs. implementation);
 4. run the property's oracle search on the implementation (the property's own statement,
    evaluated on generated inputs) — never a stand-in for a theorem: it finds the concrete
    failing input when 2 or 3 breaks, replays known findings, covers glue;
 5. verdict, evidence file, replay file.

Exit 0: property held on everything explored (KNOWN-FINDING lines for listed findings).
Exit 1: `VIOLATION property=<id> replay=<path>` (suffix `no-failing-input-found` when a
        proof obligation / correspondence broke and the search found no failing input).
Exit 2: the machinery itself failed (timeouts, tool crash, package does not import).
"""
import hashlib
import importlib
import json
import os
import re
import subprocess
import sys
import time
import traceback

HERE = os.path.dirname(os.path.abspath(__file__))
sys.path.insert(0, HERE)
sys.dont_write_bytecode = True

import common  # noqa: E402

VERIF = common.VERIF
LEAN_DIR = common.LEAN_DIR
ALLOWED_AXIOMS = {"propext", "Classical.choice", "Quot.sound"}
BANNED = re.compile(r"\bsorry\b|\badmit\b|^axiom |native_decide|bv_decide|implemented_by|\bunsafe |maxHeartbeats 0|^\s*partial def", re.M)


class MachineryError(Exception):
    pass


class Ctx:
    """what a property plugin gets"""

    def __init__(self, pid, tier, seed, info, changed_fns, escalated, build_ok):
        self.pid = pid
        self.tier = tier
        self.seed = seed
        self.info = info  # extractor output
        self.changed_fns = changed_fns
        self.escalated = escalated
        self.build_ok = build_ok
        self.driver = common.Driver() if os.path.exists(common.DRIVER) else None
        self.corrs = []  # correspondence results
        self.oracles = []  # oracle results
        self.violations = []  # concrete failing inputs (dicts)
        self.known_hits = {}  # finding id -> witness still fails?
        self.samples = []
        self.evaluations = 0
        self.nontrivial = set()
        self.notes = []
        self.extra = {}
        self.t0 = time.time()

    # -- budgets ---------------------------------------------------------------
    def budget(self, quick, thorough):
        n = quick if self.tier == "quick" else thorough
        if self.escalated and self.tier == "quick":
            n = min(thorough, n * 6)
        scale = float(os.environ.get("VERIF_BUDGET_SCALE", "1"))
        return max(1, int(n * scale))

    def rng(self, tag):
        return common.rng_for(self.seed, "%s/%s" % (self.pid, tag))

    # -- recording ---------------------------------------------------------------
    def sample(self, x):
        if len(self.samples) < 6:
            self.samples.append(x)

    def count(self, key=None, nontrivial=True):
        self.evaluations += 1
        if nontrivial and key is not None:
            self.nontrivial.add(hashlib.sha1(repr(key).encode("utf-8", "replace")).hexdigest()[:12])

    def corr(self, name, cases, mismatches, skipped=0, note=""):
        """result of one correspondence run: `mismatches` is a list of dicts with at least
        `input`, `impl`, `model` (already canonical)"""
        self.corrs.append({"name": name, "cases": cases, "mismatches": len(mismatches), "skipped_model_limit": skipped, "note": note, "first": mismatches[:3]})

    def oracle(self, name, cases, failures, note=""):
        self.oracles.append({"name": name, "cases": cases, "failures": len(failures), "note": note})
        for f in failures:
            self.violations.append(dict(f, oracle=name))

    def note(self, s):
        self.notes.append(s)


class ImplHang(BaseException):
    """the implementation did not finish a single parse within the per-parse time limit
    (BaseException: parse() wraps every Exception, a hang must not be turned into a parse error)"""


def install_watchdog(limit=float(os.environ.get("VERIF_PARSE_LIMIT", "20"))):
    """every CxxParser.parse() of the code under test runs under a SIGALRM time limit, so that
    a change that makes the parser loop shows up as a finding instead of hanging the check"""
    import signal
    sys.path.insert(0, common.REPO)
    try:
        from cxxheaderparser.parser import CxxParser
    except Exception:  # noqa: the extractor reports import problems
        return
    if getattr(CxxParser.parse, "_verif_wrapped", False):
        return
    orig = CxxParser.parse

    def on_alarm(signum, frame):
        raise ImplHang("parse() still running after %.0f s" % limit)

    def parse(self):
        import threading
        if threading.current_thread() is not threading.main_thread():
            return orig(self)
        old = signal.signal(signal.SIGALRM, on_alarm)
        signal.setitimer(signal.ITIMER_REAL, limit)
        try:
            return orig(self)
        finally:
            signal.setitimer(signal.ITIMER_REAL, 0)
            signal.signal(signal.SIGALRM, old)

    parse._verif_wrapped = True
    CxxParser.parse = parse


def run_extract():
    env = dict(os.environ)
    env["PYTHONPATH"] = common.REPO
    env["PYTHONDONTWRITEBYTECODE"] = "1"
    env["VERIF_REPO"] = common.REPO
    p = subprocess.run([common.PY, os.path.join(HERE, "extract.py"), "--json"], env=env, stdout=subprocess.PIPE, stderr=subprocess.PIPE, timeout=600)
    if p.returncode != 0:
        raise MachineryError("extractor failed (package does not import?):\n" + p.stderr.decode("utf-8", "replace")[-3000:])
    return json.loads(p.stdout.decode("utf-8"))


def lake_build(targets, timeout=3000):
    p = subprocess.run(["lake", "build"] + targets, cwd=LEAN_DIR, stdout=subprocess.PIPE, stderr=subprocess.STDOUT, timeout=timeout)
    return p.returncode == 0, p.stdout.decode("utf-8", "replace")


def write_audit_file(pid, theorems, module):
    path = os.path.join(LEAN_DIR, "Audit", pid + ".lean")
    os.makedirs(os.path.dirname(path), exist_ok=True)
    lines = ["-- GENERATED by vlib/check.py: axiom audit of the theorems property %s lists" % pid, "import %s" % module]
    for t in theorems:
        lines.append("#print axioms %s" % t)
    content = "\n".join(lines) + "\n"
    try:
        if open(path).read() == content:
            return path
    except FileNotFoundError:
        pass
    with open(path, "w") as fp:
        fp.write(content)
    return path


_ax_re = re.compile(r"'([^']+)' depends on axioms: \[([^\]]*)\]")
_noax_re = re.compile(r"'([^']+)' does not depend on any axioms")


def audit_axioms(pid, theorems, module):
    """returns (ok, per-theorem dict, raw output)"""
    path = write_audit_file(pid, theorems, module)
    p = subprocess.run(["lake", "env", "lean", path], cwd=LEAN_DIR, stdout=subprocess.PIPE, stderr=subprocess.STDOUT, timeout=1200)
    out = p.stdout.decode("utf-8", "replace")
    res = {}
    flat = out.replace("\n ", " ").replace("\n  ", " ")
    for m in _ax_re.finditer(flat):
        res[m.group(1)] = sorted(a.strip() for a in m.group(2).split(",") if a.strip())
    for m in _noax_re.finditer(flat):
        res[m.group(1)] = []
    ok = p.returncode == 0
    bad = {}
    for t in theorems:
        short = t
        if short not in res:
            # names are printed fully qualified; accept a suffix match
            cand = [k for k in res if k == t or k.endswith("." + t) or t.endswith("." + k)]
            if cand:
                res[t] = res[cand[0]]
        if t not in res:
            bad[t] = "not found"
            ok = False
        else:
            extra = set(res[t]) - ALLOWED_AXIOMS
            if extra:
                bad[t] = "axioms " + ",".join(sorted(extra))
                ok = False
    return ok, res, bad, out


def grep_banned(files):
    hits = []
    for f in files:
        try:
            src = open(f, encoding="utf-8").read()
        except FileNotFoundError:
            continue
        # discard comments
        src_nc = re.sub(r"/-.*?-/", lambda m: "\n" * m.group(0).count("\n"), src, flags=re.S)
        src_nc = re.sub(r"--.*", "", src_nc)
        for m in BANNED.finditer(src_nc):
            line = src_nc.count("\n", 0, m.start()) + 1
            hits.append("%s:%d:%s" % (os.path.relpath(f, LEAN_DIR), line, m.group(0).strip()))
    return hits


def lean_sources():
    out = []
    for root, dirs, files in os.walk(os.path.join(LEAN_DIR, "CxxModel")):
        for fn in files:
            if fn.endswith(".lean"):
                out.append(os.path.join(root, fn))
    out.append(os.path.join(LEAN_DIR, "Main.lean"))
    return sorted(out)


def load_known_findings():
    path = os.path.join(VERIF, "known_findings.json")
    try:
        return json.load(open(path))
    except FileNotFoundError:
        return {"findings": []}


def load_baseline_fps():
    try:
        return json.load(open(os.path.join(VERIF, "baseline_fingerprints.json")))
    except FileNotFoundError:
        return {}


def failing_theorems(build_out):
    """names mentioned in lake's error output (best effort)"""
    errs = []
    for line in build_out.splitlines():
        if "error:" in line:
            errs.append(line.strip()[:300])
    return errs[:20]


class ImplCoverage:
    """line coverage of the package under /repo while a check's correspondences and oracles run in this process
    (sys.monitoring, Python >= 3.12; child processes are not seen).  Reported per anchored function, so the evidence
    says where the tie between model and code was exercised by this run and where it was not."""

    def __init__(self, root):
        self.root = os.path.abspath(root) + os.sep
        self.hits = {}
        self.mon = getattr(sys, "monitoring", None)
        self.active = False

    def start(self):
        if self.mon is None:
            return
        try:
            self.mon.use_tool_id(self.mon.COVERAGE_ID, "verif")
        except Exception:  # noqa
            return
        hits = self.hits
        root = self.root
        disable = self.mon.DISABLE

        def on_line(code, line):
            fn = code.co_filename
            if fn.startswith(root):
                hits.setdefault(fn, set()).add(line)
            return disable
        self.mon.register_callback(self.mon.COVERAGE_ID, self.mon.events.LINE, on_line)
        self.mon.set_events(self.mon.COVERAGE_ID, self.mon.events.LINE)
        self.active = True

    def stop(self):
        if self.active:
            self.mon.set_events(self.mon.COVERAGE_ID, 0)
            self.mon.register_callback(self.mon.COVERAGE_ID, self.mon.events.LINE, None)
            self.mon.free_tool_id(self.mon.COVERAGE_ID)
            self.active = False

    @staticmethod
    def _functions(path):
        """qualified name -> set of lines that carry code, from the compiled module"""
        out = {}
        src = open(path, encoding="utf-8").read()
        top = compile(src, path, "exec")

        def walk(code, prefix):
            for c in code.co_consts:
                if hasattr(c, "co_code"):
                    q = (prefix + "." if prefix else "") + c.co_name
                    if c.co_name.startswith("<") and c.co_name != "<lambda>":
                        walk(c, prefix)
                        continue
                    lines = {l for _, _, l in c.co_lines() if l is not None and l != c.co_firstlineno}
                    is_class_body = "__qualname__" in c.co_names and "__module__" in c.co_names
                    if lines and not is_class_body:  # class bodies run at import time, before the measurement starts
                        out.setdefault(q, set()).update(lines)
                    walk(c, q)
        walk(top, "")
        return out

    def report(self, anchors):
        if self.mon is None:
            return {"available": False}
        per = {}
        tot = cov = 0
        for a in anchors:
            fname = a.split(":", 1)[0]
            want = a.split(":", 1)[1] if ":" in a else ""
            cands = [os.path.join(self.root, fname), os.path.join(self.root, "_ply", fname)]
            path = next((c for c in cands if os.path.exists(c)), None)
            if path is None:
                continue
            fns = self._functions(path)
            hit = self.hits.get(path, set())
            for q, lines in fns.items():
                if "<attrs>" in want or (want and not (q == want or q.startswith(want + "."))):
                    continue
                key = fname + ":" + q
                if key in per:
                    continue
                c = len(lines & hit)
                per[key] = (c, len(lines))
                tot += len(lines)
                cov += c
        untouched = sorted(k for k, (c, n) in per.items() if c == 0)
        partial = sorted(((k, c, n) for k, (c, n) in per.items() if 0 < c < n), key=lambda x: x[1] / x[2])
        return {"available": True, "anchored_functions": len(per), "lines": tot, "lines_executed": cov,
                "percent": round(100.0 * cov / tot, 1) if tot else None,
                "functions_never_entered": untouched[:60], "n_never_entered": len(untouched),
                "least_covered": [{"function": k, "executed": c, "of": n} for k, c, n in partial[:12]],
                "note": ("in-process runs only; lines of the anchored functions executed by this run's correspondences and oracles"
                         + ("; 0 lines: this check runs the implementation in child processes (timing with a hard time limit), which the "
                            "measurement does not see" if tot and cov == 0 else ""))}


def main(argv):
    if len(argv) < 3:
        print(__doc__)
        return 2
    pid, tier = argv[1], argv[2]
    replay = None
    if "--replay" in argv:
        replay = argv[argv.index("--replay") + 1]
    seed = int(os.environ.get("VERIF_SEED", "0") or 0)
    if os.environ.get("VERIF_TIER") in ("quick", "thorough") and tier not in ("quick", "thorough"):
        tier = os.environ["VERIF_TIER"]
    t0 = time.time()
    install_watchdog()
    try:
        mod = importlib.import_module("props." + pid.lower())
    except ImportError as e:
        print("no such property check: %s (%s)" % (pid, e))
        return 2

    if replay:
        return mod.replay(replay)

    # 1. translator
    with common.Lock():
        info = run_extract()
        # 2. build
        targets = [mod.LEAN_TARGET, "driver"]
        build_ok, build_out = lake_build(targets)
        driver_ok = os.path.exists(common.DRIVER)
        if not build_ok:
            # is it only the property's module that failed?  try the driver alone
            d_ok, d_out = lake_build(["driver"])
            driver_ok = d_ok
        audit_ok, axioms, audit_bad, audit_out = (False, {}, {"*": "not built"}, "")
        if build_ok:
            audit_ok, axioms, audit_bad, audit_out = audit_axioms(pid, mod.THEOREMS, mod.LEAN_TARGET)
        thorough_checker = None
        if build_ok and tier == "thorough" and os.environ.get("VERIF_SKIP_LEANCHECKER") != "1":
            try:
                p = subprocess.run(["lake", "env", "leanchecker", mod.LEAN_TARGET], cwd=LEAN_DIR, stdout=subprocess.PIPE, stderr=subprocess.STDOUT, timeout=3000)
                thorough_checker = {"rc": p.returncode, "tail": p.stdout.decode("utf-8", "replace")[-400:]}
            except Exception as e:  # noqa
                thorough_checker = {"rc": -1, "tail": str(e)}
    banned = grep_banned(lean_sources())

    # change-triggered escalation
    base = load_baseline_fps()
    fps = info.get("fingerprints", {})
    changed = sorted(k for k in set(base) | set(fps) if base.get(k) != fps.get(k)) if base else []
    anchors = getattr(mod, "ANCHORS", [])
    relevant_changed = [k for k in changed if any(k.startswith(a) for a in anchors)]
    proof_broken = (not build_ok) or (not audit_ok) or bool(banned)
    escalated = bool(relevant_changed) or proof_broken

    ctx = Ctx(pid, tier, seed, info, changed, escalated, build_ok)
    if not driver_ok:
        ctx.driver = None
    findings = [f for f in load_known_findings().get("findings", []) if f.get("property") == pid]
    ctx.findings = findings

    # 3 + 4. correspondences and oracle search (with line coverage of the implementation: which of the anchored
    # functions the inputs of this run actually exercised)
    implcov = ImplCoverage(os.path.join(common.REPO, "cxxheaderparser"))
    implcov.start()
    try:
        try:
            mod.run(ctx)
        finally:
            implcov.stop()
            try:
                ctx.extra["implementation_line_coverage"] = implcov.report(anchors)
            except Exception as e:  # noqa
                ctx.extra["implementation_line_coverage"] = {"error": repr(e)}
    except MachineryError:
        raise
    except subprocess.TimeoutExpired as e:
        print("machinery timeout: %s" % e)
        return 2
    except ImplHang as e:
        tb = traceback.extract_tb(e.__traceback__)
        repo_frames = [f for f in tb if os.path.abspath(f.filename).startswith(os.path.abspath(common.REPO) + os.sep)]
        where = ("%s:%d (%s)" % (os.path.relpath(repo_frames[-1].filename, common.REPO), repo_frames[-1].lineno, repo_frames[-1].name)) if repo_frames else "?"
        inp = None
        for fr, _ in traceback.walk_tb(e.__traceback__):
            if fr.f_code.co_name == "parse" and "self" in fr.f_locals and hasattr(fr.f_locals["self"], "lex"):
                try:
                    inp = fr.f_locals["self"].lex._lex.lex.lexdata
                except Exception:  # noqa
                    pass
        ctx.violations.append({"oracle": "hang", "input": inp, "diff": "the implementation did not finish parsing this input (%s); it was executing %s" % (e, where)})
        ctx.oracles.append({"name": "hang", "cases": 1, "failures": 1, "note": "plugin aborted"})
    except Exception as e:
        # an exception that comes out of the code under test (a frame inside /repo) is a
        # finding about the implementation, not a failure of the machinery
        tb = traceback.extract_tb(e.__traceback__)
        repo_frames = [f for f in tb if os.path.abspath(f.filename).startswith(os.path.abspath(common.REPO) + os.sep)]
        if repo_frames:
            last = repo_frames[-1]
            ctx.violations.append({"oracle": "unexpected_exception", "input": getattr(e, "verif_input", None),
                                   "diff": "the implementation raised %r at %s:%d (%s) while the check exercised it" % (e, os.path.relpath(last.filename, common.REPO), last.lineno, last.name),
                                   "traceback": traceback.format_exc()[-3000:]})
            ctx.oracles.append({"name": "unexpected_exception", "cases": 1, "failures": 1, "note": "plugin aborted"})
        else:
            print("machinery error in property plugin:")
            traceback.print_exc()
            return 2

    corr_broken = [c for c in ctx.corrs if c["mismatches"] > 0]
    if ctx.driver is None and getattr(mod, "NEEDS_DRIVER", True):
        corr_broken.append({"name": "driver", "cases": 0, "mismatches": 1, "note": "driver did not build", "first": []})

    # known findings: a violation matching a listed open finding is not an alarm
    open_findings = [f for f in findings if f.get("status") == "open"]
    new_violations = []
    matched = {}
    for v in ctx.violations:
        fid = v.get("finding")
        if fid and any(f["id"] == fid for f in open_findings):
            matched.setdefault(fid, v)
        else:
            new_violations.append(v)

    # deterministic replay of every listed open finding's witness (plugin hook)
    wit = getattr(mod, "WITNESSES", {})
    for f in open_findings:
        if f["id"] not in matched and f["id"] in wit:
            try:
                if wit[f["id"]]():
                    matched[f["id"]] = {"witness": f.get("witness")}
            except Exception as e:  # noqa
                matched[f["id"]] = {"witness": f.get("witness"), "raised": repr(e)}

    wall = time.time() - t0
    obligations = list(mod.THEOREMS)
    discharged = [t for t in obligations if build_ok and t not in audit_bad]
    verdict = "ok"
    replay_path = None
    os.makedirs(os.path.join(VERIF, "replays"), exist_ok=True)
    if new_violations:
        verdict = "violation"
        v = new_violations[0]
        h = hashlib.sha1(json.dumps(v, sort_keys=True, default=str).encode()).hexdigest()[:10]
        replay_path = os.path.join(VERIF, "replays", "%s-%s.json" % (pid, h))
        json.dump({"property": pid, "seed": seed, "tier": tier, "kind": "failing-input", "violation": v, "more": new_violations[1:5]}, open(replay_path, "w"), indent=1, default=str)
    elif proof_broken or corr_broken:
        verdict = "unproved"
        detail = {
            "property": pid, "seed": seed, "tier": tier, "kind": "no-failing-input-found",
            "build_ok": build_ok, "build_errors": failing_theorems(build_out) if not build_ok else [],
            "audit_bad": audit_bad if build_ok else {}, "banned": banned,
            "broken_correspondences": corr_broken,
            "searched": ctx.oracles,
        }
        h = hashlib.sha1(json.dumps(detail, sort_keys=True, default=str).encode()).hexdigest()[:10]
        replay_path = os.path.join(VERIF, "replays", "%s-%s.json" % (pid, h))
        json.dump(detail, open(replay_path, "w"), indent=1, default=str)

    # evidence
    cov = {
        "obligations": len(obligations),
        "discharged": len(discharged),
        "checker_cmd": "cd lean && lake build %s && lake env lean Audit/%s.lean  (#print axioms on every listed theorem)" % (mod.LEAN_TARGET, pid),
        "trusted_base": [
            "Lean 4.33 kernel" + ("; leanchecker rc=%s" % thorough_checker["rc"] if thorough_checker else ""),
            "axioms: " + ", ".join(sorted({a for t in discharged for a in axioms.get(t, [])}) or ["none"]),
            "translator vlib/extract.py (Gen/*.lean regenerated from /repo this run)",
            "correspondence harness vlib/ (model executable definitions vs implementation on generated inputs)",
        ] + list(getattr(mod, "TRUSTED", [])),
        "theorems": [{"name": t, "axioms": axioms.get(t), "status": "discharged" if t in discharged else "NOT discharged"} for t in obligations],
        "evaluations": ctx.evaluations,
        "distinct_nontrivial": len(ctx.nontrivial),
        "rule": getattr(mod, "RULE", ""),
        "samples": ctx.samples[:6] or [{"obligation": t} for t in obligations[:3]],
        "correspondences": ctx.corrs,
        "oracles": ctx.oracles,
        "carried_by": getattr(mod, "CARRIED_BY", {}),
        "known_findings_replayed": sorted(matched),
        "changed_functions_vs_baseline": relevant_changed,
        "escalated": escalated,
        "notes": ctx.notes,
        "model_coverage": getattr(mod, "MODEL_COVERAGE", ""),
    }
    cov.update(ctx.extra)
    ev = {
        "property_id": pid, "tier": tier, "seed": seed, "level": "proof", "coverage": cov,
        "assumptions": list(getattr(mod, "ASSUMPTIONS", [])),
        "wall_s": round(wall, 2),
        "violations": len(new_violations) + (1 if verdict == "unproved" else 0),
    }
    os.makedirs(os.path.join(VERIF, "evidence"), exist_ok=True)
    with open(os.path.join(VERIF, "evidence", pid + ".json"), "w") as fp:
        json.dump(ev, fp, indent=1, default=str)

    # output
    print("%s %s seed=%d: build=%s audit=%s theorems=%d/%d corr=%s oracle_cases=%d wall=%.1fs" % (
        pid, tier, seed, build_ok, audit_ok, len(discharged), len(obligations),
        ",".join("%s:%d/%d" % (c["name"], c["cases"] - c["mismatches"], c["cases"]) for c in ctx.corrs) or "-",
        sum(o["cases"] for o in ctx.oracles), wall))
    for f in open_findings:
        v = matched.get(f["id"])
        if v is not None:
            print("KNOWN-FINDING: property=%s %s — %s" % (pid, f["id"], f["what"]))
        else:
            print("note: listed finding %s was not reproduced in this run" % f["id"])
    if verdict == "violation":
        print("VIOLATION property=%s replay=%s" % (pid, replay_path))
        return 1
    if verdict == "unproved":
        print("VIOLATION property=%s replay=%s no-failing-input-found" % (pid, replay_path))
        return 1
    return 0


if __name__ == "__main__":
    try:
        rc = main(sys.argv)
    except MachineryError as e:
        print("machinery error: %s" % e)
        rc = 2
    except subprocess.TimeoutExpired as e:
        print("machinery timeout: %s" % e)
        rc = 2
    sys.exit(rc)
