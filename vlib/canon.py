"""
canon.py — canonicalisation shared by both sides of the parse correspondence, applied to
the implementation's result and to the model's result before they are diffed.
"""
import re

_repr_tail = re.compile(r"(must specify return type of 'auto', not |invalid name for variable: |name cannot have multiple segments: ).*$", re.S)
_illegal = re.compile(r"(Illegal character ).*$", re.S)


def canon_msg(m, ascii_only=True):
    if m is None:
        return None
    m = _repr_tail.sub(lambda mo: mo.group(1) + "…", m)
    if not ascii_only:
        m = _illegal.sub(lambda mo: mo.group(1) + "…", m)
    return m


def canon_cause(c, ascii_only=True):
    if c is None:
        return None
    c = dict(c)
    if c.get("k") == "py":
        c.pop("msg", None)
    if "msg" in c:
        c["msg"] = canon_msg(c["msg"], ascii_only)
    return c


def renumber(events):
    """state ids by first appearance in the delivered stream (the model numbers states at
    allocation, the recorder when it first sees them)"""
    m = {}

    def rid(x):
        if x is None:
            return None
        if x not in m:
            m[x] = len(m)
        return m[x]

    out = []
    for ev in events:
        ev = dict(ev)
        ev["state"] = rid(ev["state"])
        out.append(ev)
    for ev in out:
        p = ev["parent"]
        ev["parent"] = m.get(p, "unseen:%s" % p) if p is not None else None
    return out


def canon_parse(res, text=""):
    ascii_only = all(ord(ch) < 128 for ch in text)
    out = {"events": renumber(res.get("events", []))}
    r = dict(res.get("result") or {})
    if "msg" in r:
        r["msg"] = canon_msg(r["msg"], ascii_only)
    if "cause" in r:
        r["cause"] = canon_cause(r["cause"], ascii_only)
    out["result"] = r
    if "anon" in res:
        out["anon"] = res["anon"]
    return out


def is_model_limit(res):
    """the model gave up (fuel / unsupported): a distinct outcome, never compared"""
    r = res.get("result") or {}
    c = r.get("cause") or {}
    return c.get("k") in ("fuel", "unsupported")


def first_diff(a, b, path=""):
    """path of the first difference between two JSON values (for reports)"""
    if type(a) != type(b):
        return "%s: %r != %r" % (path, a, b)
    if isinstance(a, dict):
        for k in sorted(set(a) | set(b)):
            if k not in a or k not in b:
                return "%s.%s: missing on one side" % (path, k)
            d = first_diff(a[k], b[k], path + "." + k)
            if d:
                return d
        return None
    if isinstance(a, list):
        if len(a) != len(b):
            for i, (x, y) in enumerate(zip(a, b)):
                d = first_diff(x, y, "%s[%d]" % (path, i))
                if d:
                    return d
            return "%s: length %d != %d" % (path, len(a), len(b))
        for i, (x, y) in enumerate(zip(a, b)):
            d = first_diff(x, y, "%s[%d]" % (path, i))
            if d:
                return d
        return None
    if a != b:
        return "%s: %r != %r" % (path, a, b)
    return None
