"""
common.py — shared plumbing of the checks: paths, the Lean driver client, locking around
extraction and `lake`, the PRNG, corpus loading.
"""
import fcntl
import json
import os
import random
import re
import subprocess
import sys
import time

VERIF = os.path.dirname(os.path.dirname(os.path.abspath(__file__)))
LEAN_DIR = os.path.join(VERIF, "lean")
REPO = os.environ.get("VERIF_REPO", "/repo")
DRIVER = os.path.join(LEAN_DIR, ".lake", "build", "bin", "driver")
PY = "/venv/bin/python"


class Lock:
    """flock around extraction and lake so that checks may be launched concurrently"""

    def __init__(self, name="lean/.lock"):
        self.path = os.path.join(VERIF, name)

    def __enter__(self):
        self.fp = open(self.path, "w")
        fcntl.flock(self.fp, fcntl.LOCK_EX)
        return self

    def __exit__(self, *a):
        fcntl.flock(self.fp, fcntl.LOCK_UN)
        self.fp.close()


class Driver:
    """Runs the compiled Lean driver over a batch of operations (one JSON line each)."""

    def __init__(self, path=DRIVER):
        self.path = path

    def run(self, ops, timeout=600):
        if not ops:
            return []
        data = "\n".join(json.dumps(op, ensure_ascii=True) for op in ops) + "\n"
        p = subprocess.run([self.path], input=data.encode("utf-8"), stdout=subprocess.PIPE, stderr=subprocess.PIPE, timeout=timeout)
        if p.returncode != 0:
            raise RuntimeError("driver failed: rc=%s %s" % (p.returncode, p.stderr.decode("utf-8", "replace")[-2000:]))
        # one JSON document per "\n"-terminated line; str.splitlines() would also split at U+2028, U+0085, FF, ... inside strings
        lines = p.stdout.decode("utf-8").split("\n")
        if lines and lines[-1] == "":
            lines.pop()
        if len(lines) != len(ops):
            raise RuntimeError("driver returned %d lines for %d ops: %s" % (len(lines), len(ops), p.stderr.decode("utf-8", "replace")[-2000:]))
        return [json.loads(l) for l in lines]


_content_re = re.compile(r'content\s*=\s*"""(.*?)"""', re.S)


def load_corpus(repo=REPO):
    """every `content = \"\"\"...\"\"\"` snippet of the repository's tests, cleandoc'ed"""
    import inspect

    out = []
    tdir = os.path.join(repo, "tests")
    for fn in sorted(os.listdir(tdir)):
        if not fn.endswith(".py"):
            continue
        with open(os.path.join(tdir, fn), "r", encoding="utf-8") as fp:
            src = fp.read()
        for m in _content_re.finditer(src):
            raw = m.group(1)
            try:
                # the test files are python source: interpret escapes the way python does
                val = eval('"""' + raw + '"""')
            except Exception:
                val = raw
            out.append((fn, inspect.cleandoc(val)))
    return out


def rng_for(seed, tag):
    return random.Random("%s/%s" % (seed, tag))
