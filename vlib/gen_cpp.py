"""
gen_cpp.py — AST-first generator of C++ declarations.

Types are built as trees of cxxheaderparser.types objects (the *expected* result), printed
by an independent inside-out declarator printer (the C++ rule, not `format_decl`), and
declarations / programs are built the same way: the generator knows what it wrote, so the
expected callbacks / ParsedData are computed without asking the parser.
"""
import sys
import os

REPO = os.environ.get("VERIF_REPO", "/repo")
if REPO not in sys.path:
    sys.path.insert(0, REPO)

from cxxheaderparser import types as T  # noqa: E402
from cxxheaderparser.tokfmt import Token  # noqa: E402

FUNDAMENTALS = ["int", "unsigned int", "long long", "char", "double", "bool", "short", "unsigned", "float",
                "unsigned long", "signed char", "long double", "wchar_t", "char16_t"]
NAMES = ["Foo", "Bar", "ns::Baz", "::Glob", "a::b::C"]


def pq_name(spec: str) -> T.PQName:
    segs = []
    parts = spec.split("::")
    for i, p in enumerate(parts):
        segs.append(T.NameSpecifier(p))
    return T.PQName(segs)


def fund(name: str) -> T.PQName:
    return T.PQName([T.FundamentalSpecifier(name)])


def value(*toks):
    """Value from (text, type) pairs or plain strings (type guessed)"""
    out = []
    for t in toks:
        if isinstance(t, tuple):
            out.append(Token(t[0], t[1]))
        else:
            out.append(Token(t, guess_type(t)))
    return T.Value(out)


def guess_type(v: str) -> str:
    import re
    from cxxheaderparser.lexer import PlyLexer

    if v in PlyLexer.keywords:
        return v
    if re.fullmatch(r"[A-Za-z_~][A-Za-z0-9_]*", v):
        return "NAME"
    if re.fullmatch(r"[1-9][0-9]*", v):
        return "INT_CONST_DEC"
    if re.fullmatch(r"0[0-7]*", v):
        return "INT_CONST_OCT"
    if re.fullmatch(r"0x[0-9a-f]+", v):
        return "INT_CONST_HEX"
    if re.fullmatch(r"[0-9]+\.[0-9]+", v):
        return "FLOAT_CONST"
    if v.startswith('"'):
        return "STRING_LITERAL"
    if v.startswith("'"):
        return "CHAR_CONST"
    m = {"::": "DBL_COLON", "...": "ELLIPSIS", "&&": "DBL_AMP", "||": "DBL_PIPE", "->": "ARROW", "<<": "SHIFT_LEFT",
         "[[": "DBL_LBRACKET", "]]": "DBL_RBRACKET", "/": "DIVIDE"}
    return m.get(v, v)


# --------------------------------------------------------------------------------------
# type trees
# --------------------------------------------------------------------------------------

class TypeGen:
    """random / exhaustive type trees inside the supported range (`WFTy`)"""

    def __init__(self, rng, allow_templates=True, allow_fn=True):
        self.rng = rng
        self.allow_templates = allow_templates
        self.allow_fn = allow_fn

    def base(self, depth=0):
        r = self.rng
        k = r.random()
        if k < 0.45:
            tn = fund(r.choice(FUNDAMENTALS))
        elif k < 0.8 or not self.allow_templates or depth > 2:
            tn = pq_name(r.choice(NAMES))
        else:
            tn = self.templated(depth)
        return T.Type(tn, const=r.random() < 0.25, volatile=r.random() < 0.08)

    def templated(self, depth):
        r = self.rng
        nargs = r.randint(1, 3)
        args = []
        for _ in range(nargs):
            k = r.random()
            if k < 0.12:
                # pack expansion (anywhere in the list, not only last)
                args.append(T.TemplateArgument(T.Type(pq_name(r.choice(["Ts", "Us"]))), param_pack=True))
            elif k < 0.7:
                args.append(T.TemplateArgument(self.type_id(depth + 1)))
            else:
                args.append(T.TemplateArgument(value(str(r.randint(1, 99)))))
        name = r.choice(["std::vector", "Tmpl", "std::map", "tr1::shared_ptr"])
        parts = name.split("::")
        segs = [T.NameSpecifier(p) for p in parts[:-1]] + [T.NameSpecifier(parts[-1], T.TemplateSpecialization(args))]
        return T.PQName(segs)

    def type_id(self, depth):
        """a type usable as a template argument (no top-level function/array for simplicity)"""
        t = self.base(depth)
        r = self.rng
        for _ in range(r.randint(0, 2)):
            t = T.Pointer(t, const=r.random() < 0.2)
        if r.random() < 0.2:
            t = T.Reference(t)
        return t

    def gen(self, depth, top=True, for_param=False):
        """a declarable type of at most `depth` decorators"""
        r = self.rng
        t = self.base()
        for lvl in range(depth):
            choices = ["ptr", "ptr", "arr"]
            if self.allow_fn and not isinstance(t, (T.Array, T.FunctionType)) :
                choices.append("fn")
            if lvl == depth - 1 and not isinstance(t, (T.Reference, T.MoveReference)):
                choices += ["ref"]
                if not isinstance(t, (T.Array, T.FunctionType)):
                    choices += ["mref"]
            c = r.choice(choices)
            t = self.wrap(t, c)
        return t

    def wrap(self, t, c):
        r = self.rng
        if isinstance(t, (T.Reference, T.MoveReference)):
            return t
        if c == "ptr":
            return T.Pointer(t, const=r.random() < 0.25, volatile=r.random() < 0.1)
        if c == "ref":
            return T.Reference(t)
        if c == "mref":
            if isinstance(t, (T.Array, T.FunctionType)):
                return T.Reference(t)
            return T.MoveReference(t)
        if c == "arr":
            if isinstance(t, T.FunctionType):
                return T.Pointer(t)
            size = None if r.random() < 0.15 else value(str(r.randint(1, 64)))
            return T.Array(t, size)
        if c == "fn":
            if isinstance(t, (T.Array, T.FunctionType)):
                return T.Pointer(t)
            n = r.randint(0, 2)
            params = []
            for i in range(n):
                pt = self.type_id(2)
                params.append(T.Parameter(pt, name=("p%d" % i) if r.random() < 0.6 else None))
            fn = T.FunctionType(t, params, vararg=(n == 0 and r.random() < 0.1))
            # a bare function type is only declarable through a pointer / reference here
            return T.Pointer(fn) if r.random() < 0.8 else T.Reference(fn)
        return t


def exhaustive_types(depth, bases=None):
    """all decorator chains of exactly `depth` over {ptr, const ptr, ref, mref, arr, fnptr}"""
    if bases is None:
        bases = [T.Type(fund("int")), T.Type(pq_name("ns::Baz"), const=True)]
    out = []

    def rec(t, d):
        if d == 0:
            out.append(t)
            return
        if isinstance(t, (T.Reference, T.MoveReference)):
            return
        rec(T.Pointer(t), d - 1)
        rec(T.Pointer(t, const=True), d - 1)
        if not isinstance(t, T.FunctionType):
            rec(T.Array(t, value("3")), d - 1)
        if not isinstance(t, (T.Array, T.FunctionType)):
            fn = T.FunctionType(t, [T.Parameter(T.Type(fund("char")), name="c")])
            rec(T.Pointer(fn), d - 1) if d >= 1 else None
        if d == 1:
            out.append(T.Reference(t))
            if not isinstance(t, (T.Array, T.FunctionType)):
                out.append(T.MoveReference(t))

    for b in bases:
        rec(b, depth)
    return out


# --------------------------------------------------------------------------------------
# independent printer (inside-out rule)
# --------------------------------------------------------------------------------------

def print_value(v: T.Value) -> str:
    return " ".join(t.value for t in v.tokens)


def print_pqname(n: T.PQName) -> str:
    parts = []
    for s in n.segments:
        if isinstance(s, T.FundamentalSpecifier):
            parts.append(s.name)
        elif isinstance(s, T.NameSpecifier):
            txt = s.name
            if s.specialization is not None:
                txt += "<" + ", ".join(print_targ(a) for a in s.specialization.args) + " >"
            parts.append(txt)
        elif isinstance(s, T.AutoSpecifier):
            parts.append("auto")
        elif isinstance(s, T.DecltypeSpecifier):
            parts.append("decltype(" + " ".join(t.value for t in s.tokens) + ")")
        else:
            raise ValueError(s)
    txt = "::".join(parts)
    if n.classkey:
        txt = n.classkey + " " + txt
    if n.has_typename:
        txt = "typename " + txt
    return txt


def print_targ(a: T.TemplateArgument) -> str:
    if isinstance(a.arg, T.Value):
        s = print_value(a.arg)
    else:
        s = print_declarator(a.arg, "")
    return s + ("..." if a.param_pack else "")


def print_param(p: T.Parameter) -> str:
    name = p.name or ""
    if p.param_pack:
        name = "... " + name
    s = print_declarator(p.type, name)
    if p.default is not None:
        s += " = " + print_value(p.default)
    return s


def print_declarator(t, inner: str) -> str:
    """the C++ inside-out rule: prefix operators bind looser than suffix ones"""
    if isinstance(t, T.Type):
        cv = ("const " if t.const else "") + ("volatile " if t.volatile else "")
        return (cv + print_pqname(t.typename) + " " + inner).rstrip()
    if isinstance(t, T.Pointer):
        s = "*" + (" const" if t.const else "") + (" volatile" if t.volatile else "")
        s = s + (" " + inner if inner and (t.const or t.volatile) else inner)
        if isinstance(t.ptr_to, (T.Array, T.FunctionType)):
            s = "(" + s + ")"
        return print_declarator(t.ptr_to, s)
    if isinstance(t, T.Reference):
        s = "&" + inner
        if isinstance(t.ref_to, (T.Array, T.FunctionType)):
            s = "(" + s + ")"
        return print_declarator(t.ref_to, s)
    if isinstance(t, T.MoveReference):
        s = "&&" + inner
        if isinstance(t.moveref_to, (T.Array, T.FunctionType)):
            s = "(" + s + ")"
        return print_declarator(t.moveref_to, s)
    if isinstance(t, T.Array):
        size = print_value(t.size) if t.size is not None else ""
        return print_declarator(t.array_of, inner + "[" + size + "]")
    if isinstance(t, T.FunctionType):
        ps = ", ".join(print_param(p) for p in t.parameters)
        if t.vararg:
            ps = (ps + ", ..." if ps else "...")
        return print_declarator(t.return_type, inner + "(" + ps + ")")
    raise ValueError(t)


def type_depth(t) -> int:
    if isinstance(t, T.Type):
        return 0
    for a in ("ptr_to", "ref_to", "moveref_to", "array_of", "return_type"):
        if hasattr(t, a):
            return 1 + type_depth(getattr(t, a))
    return 0


def has_multi_dim_array(t) -> bool:
    if isinstance(t, T.Array) and isinstance(t.array_of, T.Array):
        return True
    for a in ("ptr_to", "ref_to", "moveref_to", "array_of", "return_type"):
        if hasattr(t, a):
            if has_multi_dim_array(getattr(t, a)):
                return True
    return False


def contains(t, pred) -> bool:
    if pred(t):
        return True
    for a in ("ptr_to", "ref_to", "moveref_to", "array_of", "return_type"):
        if hasattr(t, a) and contains(getattr(t, a), pred):
            return True
    if isinstance(t, T.FunctionType):
        return any(contains(p.type, pred) for p in t.parameters)
    return False
