"""
gen_text.py — texts over the token alphabet with arbitrary separators, literal grammar
enumeration, layout alphabet, bracket soups, expression grammar.
"""
import itertools

TOKENS = ["int", "x", "y1", "_z", "class", "0", "42", "0x1f", "0b11", "017", "1.5", ".5", "5.", "1e3", "0x1p3", "1'000", "10ull", "'c'", "L'c'", "u8'c'",
          "'ab'", "'\\n'", "'\\x41'", "\"s\"", "L\"s\"", "u8\"s t\"", "\"a\\\"b\"", "\"\"", "42_km", "\"s\"_sv", "(", ")", "{", "}", "[", "]", "<", ">", ";",
          ":", ",", "::", "...", "[[", "]]", "&&", "||", "->", "<<", "/", "*", "&", "|", "%", "^", "!", "-", "+", "=", ".", "?", "~T", "operator",
          "template", "typename", "nullptr", "true", "sizeof", "decltype"]
SEPS = [" ", "  ", "\t", "\n", "\n\n", "\r\n", " /* c */ ", "/*c*/", " // c\n", "/* a\n b */", " \\\n ", "\n \t", "\r\n\r\n", " /**/ "]

LAYOUTS = [" \\\r\n", " \\\r\n\t", " ", "\t", "\n", "\r\n", "  \n  ", "/* c */", " /* c\n c */ ", "// c\n", " \\\n", "\n\n", "\t \t", "/**/", " /* * / */ ", "\r\n\t", "//\n"]


def random_text(rng, n, seps=SEPS):
    parts = []
    for i in range(n):
        parts.append(rng.choice(TOKENS))
        parts.append(rng.choice(seps) if rng.random() < 0.85 else "")
    return "".join(parts)


# ---- literal grammar -------------------------------------------------------------------

INT_SUFFIXES = ["", "u", "U", "l", "L", "ul", "uL", "Ul", "UL", "lu", "lU", "Lu", "LU", "ll", "LL", "ull", "uLL", "Ull", "ULL", "llu", "llU", "LLu", "LLU"]
FLOAT_SUFFIXES = ["", "f", "F", "l", "L"]


def literals():
    """(text, expected token type) for well-formed literals of the supported grammar"""
    out = []
    for body in ["1", "9", "12", "1'000", "90'1", "123456789"]:
        for s in INT_SUFFIXES:
            out.append((body + s, "INT_CONST_DEC"))
    for body in ["0", "07", "012'3", "0'7"]:
        for s in INT_SUFFIXES:
            out.append((body + s, "INT_CONST_OCT"))
    for body in ["0x1", "0XfF", "0x1'f", "0xdead'BEEF"]:
        for s in INT_SUFFIXES:
            out.append((body + s, "INT_CONST_HEX"))
    for body in ["0b1", "0B101", "0b1'0"]:
        for s in INT_SUFFIXES:
            out.append((body + s, "INT_CONST_BIN"))
    for body in ["1.5", ".5", "5.", "1e3", "1E+3", "1.5e-3", ".5e3", "5.e3", "12.25"]:
        for s in FLOAT_SUFFIXES:
            out.append((body + s, "FLOAT_CONST"))
    for body in ["0x1p3", "0x1.8p1", "0x.8p-1", "0X1.P+2", "0xa.bp3"]:
        for s in FLOAT_SUFFIXES:
            out.append((body + s, "HEX_FLOAT_CONST"))
    chars = ["a", " ", "\"", "\\n", "\\t", "\\\\", "\\'", "\\0", "\\123", "\\x41", "\\xAB", "\\xab", "\\?", "\\x4", "é",
             ".", "5", "e", "+", "-", "x", "0", "/", "*", "#", "_", "u", "L"]
    for pre, ty in (("", "CHAR_CONST"), ("L", "WCHAR_CONST"), ("u8", "U8CHAR_CONST"), ("u", "U16CHAR_CONST"), ("U", "U32CHAR_CONST")):
        for c in chars:
            out.append((pre + "'" + c + "'", ty))
    for a, b in itertools.product(chars[:8], repeat=2):
        out.append(("'" + a + b + "'", "INT_CONST_CHAR"))
    out.append(("'abcd'", "INT_CONST_CHAR"))
    # multi-character constants that look like numbers, comments or prefixes inside the quotes
    for body in ["5.", ".5", "..", "1.e5", "1e5", "0x", "0b1", "//", "/*", "*/", "u8", "1'", "e+5", "5.f", ".a", "a."]:
        if "'" not in body:
            out.append(("'" + body + "'", "INT_CONST_CHAR"))
    strs = ["", "a", "a b", "'", "\\\"", "\\n", "\\\\", "\\x41\\x42", "\\123", "a\\tb", "é", "/* no comment */", "// no"]
    for pre, ty in (("", "STRING_LITERAL"), ("L", "WSTRING_LITERAL"), ("u8", "U8STRING_LITERAL"), ("u", "U16STRING_LITERAL"), ("U", "U32STRING_LITERAL")):
        for s in strs:
            out.append((pre + "\"" + s + "\"", ty))
    return out


PUNCT = ["...", "[[", "]]", "::", "&&", "||", "->", "<<", "<", ">", "(", ")", "{", "}", "[", "]", ";", ":", ",", "|", "%", "^", "!", "*", "-", "+", "&", "=", ".", "?", "/"]


# ---- bracket soups (C13) ------------------------------------------------------------------

SOUP_ATOMS = ["x", "int", "class", "return", "1", "0x1f", "\"s\"", "'c'", "\")\"", "\"}\"", "'('", "'{'", "\"]]\"", ",", ";", "=", "+", "*", "&", "::", "->", ".",
              "public", ":", "namespace", "template", "typename", "if", "else", "for", "while", "...", "&&", "||", "!", "?", "%", "struct", "operator", "~",
              "#", "auto", "decltype", "new", "delete", "this", "throw", "noexcept", "virtual", "friend", "using", "static_assert", "alignas", "<<", "/", "a<b", ">"]


def soup(rng, depth=0, budget=12, angle_safe=True, closers=("()", "[]", "{}")):
    """a bracket-balanced token soup; with angle_safe no bare `<`/`>` appears"""
    out = []
    n = rng.randint(0, budget)
    for _ in range(n):
        k = rng.random()
        if k < 0.2 and depth < 4:
            o, c = rng.choice(closers)
            out.append(o)
            out.extend(soup(rng, depth + 1, budget // 2, angle_safe, closers))
            out.append(c)
        elif k < 0.24 and depth < 4:
            out.append("[[")
            out.extend(soup(rng, depth + 1, budget // 2, angle_safe, closers))
            out.append("]]")
        elif k < 0.28 and depth < 4 and not angle_safe:
            out.append("<")
            out.extend(soup(rng, depth + 1, budget // 3, angle_safe, closers))
            out.append(">")
        else:
            a = rng.choice(SOUP_ATOMS)
            if angle_safe and ("<" in a or ">" in a) and a not in ("<<", "->"):
                a = "x"
            out.append(a)
    return out


# ---- expression grammar (C14) ---------------------------------------------------------------

BINOPS = ["+", "-", "*", "/", "%", "&&", "||", "|", "^", "&", "<<", "->", "."]
ATOMS = ["1", "0x1f", "1.5", "'c'", "\"s\"", "a", "b", "nullptr", "true", "this", "0", "42ull", "\")\"", "';'", "\",\"", "L\"w\"", "'>'"]


def expression(rng, depth=0, top=True, angle_ops=False):
    """token list (lexer alphabet) of an expression.  At its top level there is no `,` `;` `>`
    `)` `]` `}` and, unless `angle_ops`, no `<` that is not closed by a matching `>` (AngleClosed):
    comparisons appear parenthesised; commas appear inside brackets only."""
    k = rng.random()
    if depth > 3 or k < 0.22:
        return [rng.choice(ATOMS)]
    sub = lambda **kw: expression(rng, depth + 1, **kw)
    if rng.random() < 0.05:
        # an operator function named but not necessarily called: `&S::operator==`, `x.operator+(y)`, `&S::operator()`
        op = rng.choice([["=", "="], ["+"], ["("], ["["], ["->"], ["new"], ["!", "="], ["*"], ["delete"], ["&&"], ["+", "="]])  # lexer tokens
        op = op + {"(": [")"], "[": ["]"]}.get(op[0], [])
        r = rng.random()
        if r < 0.5:
            return ["&", rng.choice(["S", "T"]), "::", "operator"] + op
        if r < 0.8:
            return [rng.choice(["a", "b"]), ".", "operator"] + op + ["("] + sub(top=False) + [")"]
        return ["&", "ns", "::", "S", "::", "operator"] + op
    if k < 0.38:
        return sub(top=top, angle_ops=angle_ops) + [rng.choice(BINOPS)] + sub(top=top, angle_ops=angle_ops)
    if k < 0.5:
        # parenthesised: comparisons, commas, terminators are fine in here
        inner = sub(top=False)
        r = rng.random()
        if r < 0.25:
            inner = inner + ["<"] + sub(top=False)
        elif r < 0.4:
            inner = inner + [">"] + sub(top=False)
        elif r < 0.5:
            inner = inner + ["<"] + sub(top=False) + ["&&"] + sub(top=False) + ["<"] + sub(top=False)
        elif r < 0.6:
            inner = inner + [","] + sub(top=False)
        elif r < 0.65:
            inner = inner + [";"] + sub(top=False)
        elif r < 0.7:
            inner = inner + ["<"] + ["("] + sub(top=False) + [">"] + sub(top=False) + [")"]
        return ["("] + inner + [")"]
    if k < 0.62:
        args = []
        for i in range(rng.randint(0, 3)):
            if i:
                args.append(",")
            args += sub(top=False)
        head = [rng.choice(["f", "ns", "g", "sizeof", "alignof", "noexcept"])]
        if head[0] in ("f", "ns", "g") and rng.random() < 0.3:
            head += ["::", "h"]
        return head + ["("] + args + [")"]
    if k < 0.74:
        # template-id: commas and nested template-ids inside the angle brackets
        targs = []
        for i in range(rng.randint(1, 3)):
            if i:
                targs.append(",")
            r = rng.random()
            if r < 0.4:
                targs += [rng.choice(["int", "T", "3", "X", "char"])]
            elif r < 0.6:
                targs += ["std", "::", "pair", "<", "int", ",", "T", ">"]
            elif r < 0.8:
                targs += ["("] + sub(top=False) + [rng.choice([">", "<", "+"])] + sub(top=False) + [")"]
            else:
                targs += ["Y", "<", "Z", "<", "int", ">", ">"]
        tail = rng.choice([["::", "v"], ["::", "value"], ["(", ")"], ["{", "}"], ["::", "f", "(", "1", ")"]])
        return [rng.choice(["X", "std"])] + (["::", "is_same_v"] if rng.random() < 0.3 else []) + ["<"] + targs + [">"] + tail
    if k < 0.82:
        items = []
        for i in range(rng.randint(0, 3)):
            if i:
                items.append(",")
            items += sub(top=False)
        return ([rng.choice(["T", "S"])] if rng.random() < 0.4 else []) + ["{"] + items + ["}"]
    if k < 0.88:
        return [rng.choice(["a", "b"]), "["] + sub(top=False) + ["]"]
    if k < 0.92:
        # lambda
        return ["[", rng.choice(["&", "=", "this"]), "]", "(", "int", "q", ")", "{", "return", "q", "+"] + sub(top=False) + [";", "}"]
    if k < 0.95:
        return sub(top=top) + ["?"] + sub(top=top) + [":"] + sub(top=top)
    if k < 0.97 and angle_ops:
        return sub(top=top) + [rng.choice(["<", ">"])] + sub(top=top)
    return [rng.choice(["-", "!", "~", "*", "&", "new", "sizeof"])] + sub(top=top, angle_ops=angle_ops)
