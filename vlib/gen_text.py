"""
gen_text.py — texts over the token alphabet with arbitrary separators, literal grammar
enumeration, layout alphabet, bracket soups, expression grammar.
"""
import itertools

TOKENS = ["int", "x", "y1", "_z", "class", "0", "42", "0x1f", "0b11", "017", "1.5", ".5", "5.", "1e3", "0x1p3", "1'000", "10ull", "'c'", "L'c'", "u8'c'",
          "'ab'", "'\\n'", "'\\x41'", "\"s\"", "L\"s\"", "u8\"s t\"", "\"a\\\"b\"", "\"\"", "42_km", "\"s\"_sv", "(", ")", "{", "}", "[", "]", "<", ">", ";",
          ":", ",", "::", "...", "[[", "]]", "&&", "||", "->", "<<", "/", "*", "&", "|", "%", "^", "!", "-", "+", "=", ".", "?", "~T", "operator",
          "template", "typename", "nullptr", "true", "sizeof", "decltype"]
SEPS = [" ", "  ", "\t", "\n", "\n\n", "\r\n", " /* c */ ", "/*c*/", " // c\n", "/* a\n b */", " \\\n ", "\n \t", "\r\n\r\n", " /**/ "]

LAYOUTS = [" \\\r\n", " \\\r\n\t", " ", "\t", "\n", "\r\n", "  \n  ", "/* c */", " /* c\n c */ ", "// c\n", " \\\n", "\n\n", "\t \t", "/**/", " /* * / */ ", "\r\n\t", "//\n"]


def random_text(rng, n, seps=SEPS):
    parts = []
    for i in range(n):
        parts.append(rng.choice(TOKENS))
        parts.append(rng.choice(seps) if rng.random() < 0.85 else "")
    return "".join(parts)


# ---- literal grammar -------------------------------------------------------------------

INT_SUFFIXES = ["", "u", "U", "l", "L", "ul", "uL", "Ul", "UL", "lu", "lU", "Lu", "LU", "ll", "LL", "ull", "uLL", "Ull", "ULL", "llu", "llU", "LLu", "LLU"]
FLOAT_SUFFIXES = ["", "f", "F", "l", "L"]


def literals():
    """(text, expected token type) for well-formed literals of the supported grammar"""
    out = []
    for body in ["1", "9", "12", "1'000", "90'1", "123456789"]:
        for s in INT_SUFFIXES:
            out.append((body + s, "INT_CONST_DEC"))
    for body in ["0", "07", "012'3", "0'7"]:
        for s in INT_SUFFIXES:
            out.append((body + s, "INT_CONST_OCT"))
    for body in ["0x1", "0XfF", "0x1'f", "0xdead'BEEF"]:
        for s in INT_SUFFIXES:
            out.append((body + s, "INT_CONST_HEX"))
    for body in ["0b1", "0B101", "0b1'0"]:
        for s in INT_SUFFIXES:
            out.append((body + s, "INT_CONST_BIN"))
    for body in ["1.5", ".5", "5.", "1e3", "1E+3", "1.5e-3", ".5e3", "5.e3", "12.25"]:
        for s in FLOAT_SUFFIXES:
            out.append((body + s, "FLOAT_CONST"))
    for body in ["0x1p3", "0x1.8p1", "0x.8p-1", "0X1.P+2", "0xa.bp3"]:
        for s in FLOAT_SUFFIXES:
            out.append((body + s, "HEX_FLOAT_CONST"))
    chars = ["a", " ", "\"", "\\n", "\\t", "\\\\", "\\'", "\\0", "\\123", "\\x41", "\\xAB", "\\xab", "\\?", "\\x4", "é"]
    for pre, ty in (("", "CHAR_CONST"), ("L", "WCHAR_CONST"), ("u8", "U8CHAR_CONST"), ("u", "U16CHAR_CONST"), ("U", "U32CHAR_CONST")):
        for c in chars:
            out.append((pre + "'" + c + "'", ty))
    for a, b in itertools.product(chars[:8], repeat=2):
        out.append(("'" + a + b + "'", "INT_CONST_CHAR"))
    out.append(("'abcd'", "INT_CONST_CHAR"))
    strs = ["", "a", "a b", "'", "\\\"", "\\n", "\\\\", "\\x41\\x42", "\\123", "a\\tb", "é", "/* no comment */", "// no"]
    for pre, ty in (("", "STRING_LITERAL"), ("L", "WSTRING_LITERAL"), ("u8", "U8STRING_LITERAL"), ("u", "U16STRING_LITERAL"), ("U", "U32STRING_LITERAL")):
        for s in strs:
            out.append((pre + "\"" + s + "\"", ty))
    return out


PUNCT = ["...", "[[", "]]", "::", "&&", "||", "->", "<<", "<", ">", "(", ")", "{", "}", "[", "]", ";", ":", ",", "|", "%", "^", "!", "*", "-", "+", "&", "=", ".", "?", "/"]


# ---- bracket soups (C13) ------------------------------------------------------------------

SOUP_ATOMS = ["x", "int", "class", "return", "1", "0x1f", "\"s\"", "'c'", "\")\"", "\"}\"", "'('", "'{'", "\"]]\"", ",", ";", "=", "+", "*", "&", "::", "->", ".",
              "public", ":", "namespace", "template", "typename", "if", "else", "for", "while", "...", "&&", "||", "!", "?", "%", "struct", "operator", "~",
              "#", "auto", "decltype", "new", "delete", "this", "throw", "noexcept", "virtual", "friend", "using", "static_assert", "alignas", "<<", "/", "a<b", ">"]


def soup(rng, depth=0, budget=12, angle_safe=True, closers=("()", "[]", "{}")):
    """a bracket-balanced token soup; with angle_safe no bare `<`/`>` appears"""
    out = []
    n = rng.randint(0, budget)
    for _ in range(n):
        k = rng.random()
        if k < 0.2 and depth < 4:
            o, c = rng.choice(closers)
            out.append(o)
            out.extend(soup(rng, depth + 1, budget // 2, angle_safe, closers))
            out.append(c)
        elif k < 0.24 and depth < 4:
            out.append("[[")
            out.extend(soup(rng, depth + 1, budget // 2, angle_safe, closers))
            out.append("]]")
        elif k < 0.28 and depth < 4 and not angle_safe:
            out.append("<")
            out.extend(soup(rng, depth + 1, budget // 3, angle_safe, closers))
            out.append(">")
        else:
            a = rng.choice(SOUP_ATOMS)
            if angle_safe and ("<" in a or ">" in a) and a not in ("<<", "->"):
                a = "x"
            out.append(a)
    return out


# ---- expression grammar (C14) ---------------------------------------------------------------

def expression(rng, depth=0, terminators=(",", ";")):
    """token list of an expression whose top level contains none of `terminators` and whose
    `<`/`>` are template brackets or parenthesised comparisons (AngleClosed)"""
    k = rng.random()
    atoms = ["1", "0x1f", "1.5", "'c'", "\"s\"", "a", "b", "nullptr", "true", "this", "sizeof"]
    if depth > 3 or k < 0.3:
        return [rng.choice(atoms)]
    if k < 0.45:
        return expression(rng, depth + 1) + [rng.choice(["+", "-", "*", "/", "%", "&&", "||", "|", "^", "&", "<<", "=="[:1] + "="][:11])] + expression(rng, depth + 1) if False else expression(rng, depth + 1) + [rng.choice(["+", "-", "*", "/", "%", "&&", "||", "|", "^", "&", "<<"])] + expression(rng, depth + 1)
    if k < 0.58:
        return ["("] + expression(rng, depth + 1, ()) + [rng.choice(["<", ">", ","]) if rng.random() < 0.4 else "+"] + expression(rng, depth + 1, ()) + [")"]
    if k < 0.7:
        args = []
        for i in range(rng.randint(0, 3)):
            if i:
                args.append(",")
            args += expression(rng, depth + 1, ())
        return [rng.choice(["f", "ns", "g"])] + (["::", "h"] if rng.random() < 0.3 else []) + ["("] + args + [")"]
    if k < 0.8:
        targs = []
        for i in range(rng.randint(1, 2)):
            if i:
                targs.append(",")
            targs += [rng.choice(["int", "T", "3", "X"])]
        return ["X", "<"] + targs + [">", "::", "v"]
    if k < 0.88:
        items = []
        for i in range(rng.randint(0, 3)):
            if i:
                items.append(",")
            items += expression(rng, depth + 1, ())
        return ["{"] + items + ["}"]
    if k < 0.94:
        return ["a", "["] + expression(rng, depth + 1, ()) + ["]"]
    return [rng.choice(["-", "!", "~", "*", "&"])] + expression(rng, depth + 1)
