#!/usr/bin/env python3
"""
extract.py — the translator half of the tie between the Lean model and /repo.

Everything in cxxheaderparser that is *data* is dumped, from the live objects of the
working tree and from an `ast` scan of its source, into `lean/CxxModel/Gen/*.lean`.
It runs at the start of every check; a file is rewritten only when its content changes
(so `lake build` is a no-op on an unchanged tree).

Run with /venv/bin/python, PYTHONPATH=<repo>.
"""
import ast
import dataclasses
import hashlib
import inspect
import json
import os
import re
import sys
import typing

import re._parser as sre_parse
import re._constants as sre_c

HERE = os.path.dirname(os.path.abspath(__file__))
GEN = os.path.join(HERE, "..", "lean", "CxxModel", "Gen")
REPO = os.environ.get("VERIF_REPO", "/repo")


# --------------------------------------------------------------------------------------
# helpers
# --------------------------------------------------------------------------------------

def lstr(s: str) -> str:
    """Lean string literal"""
    out = ['"']
    for ch in s:
        o = ord(ch)
        if ch == '"':
            out.append('\\"')
        elif ch == "\\":
            out.append("\\\\")
        elif ch == "\n":
            out.append("\\n")
        elif ch == "\t":
            out.append("\\t")
        elif ch == "\r":
            out.append("\\r")
        elif o < 32 or o == 127:
            out.append("\\x%02x" % o)
        else:
            out.append(ch)
    out.append('"')
    return "".join(out)


def lstrs(xs) -> str:
    return "[" + ", ".join(lstr(x) for x in xs) + "]"


def lbool(b) -> str:
    return "true" if b else "false"


def write_if_changed(path: str, content: str) -> bool:
    try:
        with open(path, "r", encoding="utf-8") as fp:
            if fp.read() == content:
                return False
    except FileNotFoundError:
        pass
    tmp = path + ".tmp%d" % os.getpid()
    with open(tmp, "w", encoding="utf-8") as fp:
        fp.write(content)
    os.replace(tmp, path)
    return True


_cat_cache: typing.Dict[str, typing.List[typing.Tuple[int, int]]] = {}


def category_ranges(cat) -> typing.Optional[typing.List[typing.Tuple[int, int]]]:
    """code point ranges of a regex character category, from the running Python"""
    pats = {
        sre_c.CATEGORY_DIGIT: r"\d",
        sre_c.CATEGORY_SPACE: r"\s",
        sre_c.CATEGORY_WORD: r"\w",
    }
    neg = {
        sre_c.CATEGORY_NOT_DIGIT: r"\d",
        sre_c.CATEGORY_NOT_SPACE: r"\s",
        sre_c.CATEGORY_NOT_WORD: r"\w",
    }
    if cat in neg:
        return None  # negated categories inside classes are outside the fragment
    pat = pats.get(cat)
    if pat is None:
        return None
    if pat in _cat_cache:
        return _cat_cache[pat]
    cre = re.compile(pat)
    rs = []
    start = None
    for c in range(0x110000):
        if cre.match(chr(c)):
            if start is None:
                start = c
        else:
            if start is not None:
                rs.append((start, c - 1))
                start = None
    if start is not None:
        rs.append((start, 0x10FFFF))
    _cat_cache[pat] = rs
    return rs


class Unsupported(Exception):
    pass


def flatten_items(items):
    """a group without flags is just a sub-sequence: splice it (sequence is associative, so
    `paths` is unchanged), so that every sequence is right-nested in the generated term"""
    out = []
    for op, av in items:
        if op is sre_c.SUBPATTERN and not av[1] and not av[2]:
            out.extend(flatten_items(av[3]))
        else:
            out.append((op, av))
    return out


def re_to_lean(items) -> str:
    """sre parse tree (a sequence) -> Lean `Re` term"""
    parts = [node_to_lean(op, av) for op, av in flatten_items(items)]
    return seq_lean(parts)


def seq_lean(parts) -> str:
    if not parts:
        return ".eps"
    acc = parts[-1]
    for p in reversed(parts[:-1]):
        acc = f"(.seq {p} {acc})"
    return acc


def ranges_lean(rs) -> str:
    return "[" + ", ".join(f"({a}, {b})" for a, b in rs) + "]"


def node_to_lean(op, av) -> str:
    try:
        return _node_to_lean(op, av)
    except Unsupported:
        return ".unsupported"


def _node_to_lean(op, av) -> str:
    if op is sre_c.LITERAL:
        return f"(.chars false [({av}, {av})])"
    if op is sre_c.NOT_LITERAL:
        return f"(.chars true [({av}, {av})])"
    if op is sre_c.ANY:
        # no DOTALL: anything but newline
        return "(.chars true [(10, 10)])"
    if op is sre_c.IN:
        neg = False
        rs = []
        for iop, iav in av:
            if iop is sre_c.NEGATE:
                neg = True
            elif iop is sre_c.LITERAL:
                rs.append((iav, iav))
            elif iop is sre_c.RANGE:
                rs.append((iav[0], iav[1]))
            elif iop is sre_c.CATEGORY:
                cr = category_ranges(iav)
                if cr is None:
                    raise Unsupported()
                rs.extend(cr)
            else:
                raise Unsupported()
        return f"(.chars {lbool(neg)} {ranges_lean(rs)})"
    if op is sre_c.BRANCH:
        _, alts = av
        parts = [re_to_lean(a) for a in alts]
        acc = parts[-1]
        for p in reversed(parts[:-1]):
            acc = f"(.alt {p} {acc})"
        return acc
    if op is sre_c.SUBPATTERN:
        group, add, dele, items = av
        if add or dele:
            raise Unsupported()
        return re_to_lean(items)
    if op is sre_c.MAX_REPEAT:
        mn, mx, items = av
        mxs = "none" if mx == sre_c.MAXREPEAT else f"(some {mx})"
        return f"(.rep {re_to_lean(items)} {mn} {mxs})"
    if op is sre_c.ASSERT_NOT:
        d, items = av
        if d != 1:
            raise Unsupported()
        return f"(.nla {re_to_lean(items)})"
    if op is sre_c.AT:
        if av is sre_c.AT_END:
            return ".eos"
        raise Unsupported()
    raise Unsupported()


def count_nodes(items, acc):
    for op, av in items:
        acc[str(op)] = acc.get(str(op), 0) + 1
        if op is sre_c.BRANCH:
            for a in av[1]:
                count_nodes(a, acc)
        elif op is sre_c.SUBPATTERN:
            count_nodes(av[3], acc)
        elif op is sre_c.MAX_REPEAT or op is sre_c.MIN_REPEAT:
            count_nodes(av[2], acc)
        elif op in (sre_c.ASSERT, sre_c.ASSERT_NOT):
            count_nodes(av[1], acc)
    return acc


# --------------------------------------------------------------------------------------
# AST templates for lexer actions
# --------------------------------------------------------------------------------------

def norm_body(fn: ast.FunctionDef) -> str:
    body = list(fn.body)
    # drop docstring
    if body and isinstance(body[0], ast.Expr) and isinstance(getattr(body[0], "value", None), ast.Constant) and isinstance(body[0].value.value, str):
        body = body[1:]
    return ";".join(ast.dump(s, annotate_fields=False, include_attributes=False) for s in body)


def tmpl(src: str) -> str:
    fn = ast.parse("def f(self, t):\n" + "\n".join("    " + l for l in src.strip("\n").splitlines())).body[0]
    return norm_body(fn)


T_RET = tmpl("return t")
T_COUNTNL = tmpl('t.lexer.lineno += t.value.count("\\n")\nreturn t')
T_LENNL = tmpl("t.lexer.lineno += len(t.value)\nreturn t")
T_KEYWORD = tmpl("if t.value in self.keywords:\n    t.type = t.value\nreturn t")
T_PP = tmpl(
    '''
m = _line_re.match(t.value)
if m:
    self.filename = m.group(3)
    self.line_offset = 1 + self.lex.lineno - int(m.group(2))
    return None
if t.value.startswith("#warning"):
    return
if "define" in t.value:
    msgtype = "#define"
else:
    msgtype = "preprocessor"
self._error(
    "cxxheaderparser does not support "
    + msgtype
    + " directives, please use a C++ preprocessor first",
    t,
)
'''
)
T_TERROR = tmpl('self._error(f"Illegal character {t.value!r}", t)')


def classify_action(fn: ast.FunctionDef) -> str:
    nb = norm_body(fn)
    if nb == T_RET:
        return ".ret"
    if nb == T_COUNTNL:
        return ".countNl"
    if nb == T_LENNL:
        return ".lenNl"
    if nb == T_KEYWORD:
        return ".keyword"
    if nb == T_PP:
        return ".ppDirective"
    # msg = "const" ; self._error(msg, t)
    body = fn.body
    if (
        len(body) == 2
        and isinstance(body[0], ast.Assign)
        and len(body[0].targets) == 1
        and isinstance(body[0].targets[0], ast.Name)
        and body[0].targets[0].id == "msg"
        and ast.dump(body[1]) == ast.dump(ast.parse("self._error(msg, t)").body[0])
    ):
        v = body[0].value
        if isinstance(v, ast.Constant) and isinstance(v.value, str):
            return f"(.error {lstr(v.value)})"
        if (
            isinstance(v, ast.BinOp)
            and isinstance(v.op, ast.Mod)
            and isinstance(v.left, ast.Constant)
            and isinstance(v.left.value, str)
            and v.left.value.count("%s") == 1
            and v.left.value.endswith("%s")
            and ast.dump(v.right) == ast.dump(ast.parse("t.value").body[0].value)
        ):
            return f"(.errorFmt {lstr(v.left.value[:-2])})"
    return ".opaque"


def fn_fingerprint(node: ast.AST) -> str:
    return hashlib.sha256(ast.dump(node, annotate_fields=False, include_attributes=False).encode()).hexdigest()[:16]


# --------------------------------------------------------------------------------------
# main extraction
# --------------------------------------------------------------------------------------

def extract_all(outdir: str = GEN) -> dict:
    os.makedirs(outdir, exist_ok=True)
    info: dict = {"changed": []}

    from cxxheaderparser import lexer as L
    from cxxheaderparser import parser as P
    from cxxheaderparser import tokfmt as TF
    import cxxheaderparser

    pkgdir = os.path.dirname(cxxheaderparser.__file__)
    info["pkgdir"] = pkgdir

    # ---------------- lexer rules ------------------------------------------------
    pl = L.PlyLexer(None)
    lx = pl.lex
    statere = lx.lexstatere["INITIAL"]
    retext = lx.lexstateretext["INITIAL"]
    with open(os.path.join(pkgdir, "lexer.py"), "r", encoding="utf-8") as fp:
        lexer_src = fp.read()
    lexer_ast = ast.parse(lexer_src)
    ply_cls = [n for n in lexer_ast.body if isinstance(n, ast.ClassDef) and n.name == "PlyLexer"][0]
    ply_fns = {n.name: n for n in ply_cls.body if isinstance(n, ast.FunctionDef)}

    rules = []
    node_counts: dict = {}
    for (cre, findex), text in zip(statere, retext):
        tree = sre_parse.parse(text, lx.lexreflags)
        count_nodes(tree.data, node_counts)
        data = tree.data
        if len(data) == 1 and data[0][0] is sre_c.BRANCH:
            alts = data[0][1][1]
        else:
            alts = [data]
        for alt in alts:
            # every alternative is one named group (?P<t_X>...)
            if len(alt) == 1 and alt[0][0] is sre_c.SUBPATTERN:
                group = alt[0][1][0]
                f = findex[group]
                fname = f[0].__name__ if (f and f[0]) else None
                ttype = f[1] if f else None
                # name of the rule from the group dict
                gname = None
                for k, v in tree.state.groupdict.items():
                    if v == group:
                        gname = k
                lean_re = re_to_lean(alt[0][1][3])
                if fname is not None:
                    fn = ply_fns.get(fname)
                    action = classify_action(fn) if fn is not None else ".opaque"
                    is_func = True
                else:
                    action = ".ret" if ttype else ".skip"
                    is_func = False
                rules.append((gname or "?", ttype or "", is_func, lean_re, action))
            else:
                rules.append(("?", "", False, ".unsupported", ".opaque"))

    terr = ply_fns.get("t_error")
    terror_std = terr is not None and norm_body(terr) == T_TERROR
    errfn = ply_fns.get("_error")
    error_std = errfn is not None and norm_body(errfn) == tmpl(
        "tok.location = self.current_location()\nraise LexError(msg, tok)"
    ).replace("'t'", "'t'")
    # _error has params (self, msg, tok): compare bodies directly
    error_std = errfn is not None and ";".join(
        ast.dump(s, annotate_fields=False) for s in errfn.body
    ) == ";".join(
        ast.dump(s, annotate_fields=False)
        for s in ast.parse("tok.location = self.current_location()\nraise LexError(msg, tok)").body
    )
    curloc = ply_fns.get("current_location")
    curloc_std = curloc is not None and ";".join(
        ast.dump(s, annotate_fields=False) for s in curloc.body
    ) == ";".join(
        ast.dump(s, annotate_fields=False)
        for s in ast.parse("return Location(self.filename, self.lex.lineno - self.line_offset)").body
    )

    def re_const(pattern: re.Pattern) -> str:
        tree = sre_parse.parse(pattern.pattern, pattern.flags & ~re.UNICODE)
        data = list(tree.data)
        # a leading ^ is dropped: these patterns are only used anchored (match / sub at 0)
        if data and data[0][0] is sre_c.AT and data[0][1] is sre_c.AT_BEGINNING:
            data = data[1:]
        return re_to_lean(data)

    out = []
    out.append("-- GENERATED by vlib/extract.py from cxxheaderparser/lexer.py — do not edit")
    out.append("import CxxModel.Regex")
    out.append("import CxxModel.LexTypes")
    out.append("namespace Cxx.Gen")
    out.append("open Cxx")
    out.append("")
    for i, (name, ttype, is_func, lean_re, action) in enumerate(rules):
        out.append(f"def rule{i} : Rule := Rule.mk {lstr(name)} {lstr(ttype)} {lbool(is_func)} {action}")
        out.append(f"  {lean_re}")
    out.append("")
    out.append("def rules : List Rule := [" + ", ".join(f"rule{i}" for i in range(len(rules))) + "]")
    out.append("")
    out.append("def literals : List Nat := " + "[" + ", ".join(str(ord(c)) for c in lx.lexliterals) + "]")
    out.append("def ignore : List Nat := " + "[" + ", ".join(str(ord(c)) for c in lx.lexignore) + "]")
    out.append("def keywords : List String := " + lstrs(sorted(L.PlyLexer.keywords)))
    # every token type the lexer declares that is not an upper-case class name: the keyword types
    out.append("def keywordTokenTypes : List String := " + lstrs(sorted(t for t in L.PlyLexer.tokens if not t.isupper())))
    out.append(f"def tErrorStandard : Bool := {lbool(terror_std)}")
    out.append(f"def errorFnStandard : Bool := {lbool(error_std)}")
    out.append(f"def currentLocationStandard : Bool := {lbool(curloc_std)}")
    out.append(f"def reflagsVerboseOnly : Bool := {lbool(lx.lexreflags == int(re.VERBOSE))}")
    out.append(f"def lineRe : Re := {re_const(L._line_re)}")
    out.append(f"def multicommentRe : Re := {re_const(L._multicomment_re)}")
    out.append("")
    out.append("end Cxx.Gen")
    if write_if_changed(os.path.join(outdir, "LexRules.lean"), "\n".join(out) + "\n"):
        info["changed"].append("LexRules")
    info["n_rules"] = len(rules)
    info["rule_names"] = [r[0] for r in rules]
    info["rule_actions"] = {r[0]: r[4] for r in rules}
    info["re_node_counts"] = node_counts

    # ---------------- token stream sets ------------------------------------------
    out = []
    out.append("-- GENERATED by vlib/extract.py from cxxheaderparser/lexer.py — do not edit")
    out.append("namespace Cxx.Gen")
    out.append("def discardTypes : List String := " + lstrs(sorted(L.TokenStream._discard_types)))
    out.append("def discardTypesExceptNewline : List String := " + lstrs(sorted(L.TokenStream._discard_types_except_newline)))
    out.append("def udlStart : List String := " + lstrs(sorted(L.LexerTokenStream._user_defined_literal_start)))
    out.append(f"def phonyType : String := {lstr(L.PhonyEnding.type)}")
    out.append(f"def phonyValue : String := {lstr(L.PhonyEnding.value)}")
    out.append("end Cxx.Gen")
    if write_if_changed(os.path.join(outdir, "StreamSets.lean"), "\n".join(out) + "\n"):
        info["changed"].append("StreamSets")

    # ---------------- tokfmt -----------------------------------------------------
    with open(os.path.join(pkgdir, "tokfmt.py"), "r", encoding="utf-8") as fp:
        tf_ast = ast.parse(fp.read())
    tf_fn = [n for n in tf_ast.body if isinstance(n, ast.FunctionDef) and n.name == "tokfmt"][0]
    tf_std = norm_body(tf_fn) == tmpl(
        '''
last = 0
vals = []
default = (0, 0)
ws = _want_spacing
for tok in toks:
    value = tok.value
    if value == "operator":
        l, r = 2, 0
    else:
        l, r = ws.get(tok.type, default)
    if l + last >= 3:
        vals.append(" ")
    last = r
    vals.append(value)
return "".join(vals)
'''
    )
    out = []
    out.append("-- GENERATED by vlib/extract.py from cxxheaderparser/tokfmt.py — do not edit")
    out.append("namespace Cxx.Gen")
    out.append("def wantSpacing : List (String × Nat × Nat) := [")
    items = sorted(TF._want_spacing.items())
    out.append(",\n".join(f"  ({lstr(k)}, {v[0]}, {v[1]})" for k, v in items))
    out.append("]")
    out.append(f"def tokfmtStandard : Bool := {lbool(tf_std)}")
    out.append("end Cxx.Gen")
    if write_if_changed(os.path.join(outdir, "TokFmt.lean"), "\n".join(out) + "\n"):
        info["changed"].append("TokFmt")

    # ---------------- parser tables ----------------------------------------------
    C = P.CxxParser
    with open(os.path.join(pkgdir, "parser.py"), "r", encoding="utf-8") as fp:
        parser_src = fp.read()
    parser_ast = ast.parse(parser_src)
    pcls = [n for n in parser_ast.body if isinstance(n, ast.ClassDef) and n.name == "CxxParser"][0]
    pfns = {n.name: n for n in pcls.body if isinstance(n, ast.FunctionDef)}
    parse_fn = pfns["parse"]
    dispatch = []
    keep_dox = []
    for node in ast.walk(parse_fn):
        tgt = None
        val = None
        if isinstance(node, ast.AnnAssign) and isinstance(node.target, ast.Name):
            tgt, val = node.target.id, node.value
        elif isinstance(node, ast.Assign) and len(node.targets) == 1 and isinstance(node.targets[0], ast.Name):
            tgt, val = node.targets[0].id, node.value
        if tgt == "_translation_unit_tokens" and isinstance(val, ast.Dict):
            for k, v in zip(val.keys, val.values):
                key = k.value if isinstance(k, ast.Constant) else "?"
                if isinstance(v, ast.Attribute):
                    h = v.attr
                elif isinstance(v, ast.Lambda):
                    h = "<lambda:" + ast.dump(v.body, annotate_fields=False) + ">"
                else:
                    h = "?"
                dispatch.append((key, h))
        if tgt == "_keep_doxygen" and isinstance(val, ast.Set):
            keep_dox = sorted(e.value for e in val.elts if isinstance(e, ast.Constant))

    def sset(x):
        return lstrs(sorted(x))

    out = []
    out.append("-- GENERATED by vlib/extract.py from cxxheaderparser/parser.py — do not edit")
    out.append("namespace Cxx.Gen")
    out.append("def balancedTokenMap : List (String × String) := [" + ", ".join(f"({lstr(k)}, {lstr(v)})" for k, v in sorted(C._balanced_token_map.items())) + "]")
    out.append("def endBalancedTokens : List String := " + sset(C._end_balanced_tokens))
    out.append("def attributeStartTokens : List String := " + sset(C._attribute_start_tokens))
    out.append("def attributeSpecifierSeqStartTypes : List String := " + sset(C._attribute_specifier_seq_start_types))
    out.append("def pqnameStartTokens : List String := " + sset(C._pqname_start_tokens))
    out.append("def fundamentals : List String := " + sset(C._fundamentals))
    out.append("def compoundFundamentals : List String := " + sset(C._compound_fundamentals))
    out.append("def nameCompoundStart : List String := " + sset(C._name_compound_start))
    out.append("def typeKwdBoth : List String := " + sset(C._type_kwd_both))
    out.append("def typeKwdMeth : List String := " + sset(C._type_kwd_meth))
    out.append("def parseTypePtrRefParen : List String := " + sset(C._parse_type_ptr_ref_paren))
    out.append("def classEnumStage2 : List String := " + sset(C._class_enum_stage2))
    out.append("def msvcConventions : List String := " + sset(C._msvc_conventions))
    out.append("def baseAccessVirtual : List String := " + sset(C._base_access_virtual))
    out.append("def exprOperators : List String := " + sset(C._expr_operators))
    out.append("def dispatchTable : List (String × String) := [" + ", ".join(f"({lstr(k)}, {lstr(v)})" for k, v in dispatch) + "]")
    out.append("def keepDoxygen : List String := " + lstrs(keep_dox))
    out.append("end Cxx.Gen")
    if write_if_changed(os.path.join(outdir, "ParserTables.lean"), "\n".join(out) + "\n"):
        info["changed"].append("ParserTables")

    # ---------------- static usage facts of parser.py ----------------------------
    def contains_slice_1_m1(node) -> bool:
        for n in ast.walk(node):
            if isinstance(n, ast.Subscript) and isinstance(n.slice, ast.Slice):
                lo, hi = n.slice.lower, n.slice.upper
                if (
                    isinstance(lo, ast.Constant) and lo.value == 1
                    and isinstance(hi, ast.UnaryOp) and isinstance(hi.op, ast.USub)
                    and isinstance(hi.operand, ast.Constant) and hi.operand.value == 1
                    and n.slice.step is None
                ):
                    return True
        return False

    def site_sliced(fn: ast.FunctionDef, attr: str) -> typing.Optional[bool]:
        """In `fn`, is the value stored into `<x>.<attr>` built from a token list that went
        through `[1:-1]` (directly or through a local variable)?  None = site not found."""
        sliced_vars = set()
        plain_vars = set()
        result = None
        for n in ast.walk(fn):
            if isinstance(n, ast.Assign) and len(n.targets) == 1 and isinstance(n.targets[0], ast.Name):
                uses_balanced = any(isinstance(m, ast.Attribute) and m.attr == "_consume_balanced_tokens" for m in ast.walk(n.value))
                if uses_balanced:
                    (sliced_vars if contains_slice_1_m1(n.value) else plain_vars).add(n.targets[0].id)
                elif any(isinstance(m, ast.Name) and m.id in (sliced_vars | plain_vars) for m in ast.walk(n.value)) and contains_slice_1_m1(n.value):
                    sliced_vars.add(n.targets[0].id)
        for n in ast.walk(fn):
            if isinstance(n, ast.Assign) and len(n.targets) == 1 and isinstance(n.targets[0], ast.Attribute) and n.targets[0].attr == attr:
                v = n.value
                direct = contains_slice_1_m1(v)
                names = {m.id for m in ast.walk(v) if isinstance(m, ast.Name)}
                uses_bal = any(isinstance(m, ast.Attribute) and m.attr == "_consume_balanced_tokens" for m in ast.walk(v))
                if direct:
                    r = True
                elif uses_bal:
                    r = False
                elif names & plain_vars and not (names & sliced_vars):
                    r = False
                else:
                    r = True
                result = r if result is None else (result and r)
        return result

    def ret_sliced(fn: ast.FunctionDef) -> bool:
        """does the function slice its `_consume_balanced_tokens` result with [1:-1] somewhere"""
        return contains_slice_1_m1(fn)

    sites = {
        "fnThrowSliced": site_sliced(pfns["_parse_fn_end"], "throw"),
        "fnNoexceptSliced": site_sliced(pfns["_parse_fn_end"], "noexcept"),
        "methodThrowSliced": site_sliced(pfns["_parse_method_end"], "throw"),
        "methodNoexceptSliced": site_sliced(pfns["_parse_method_end"], "noexcept"),
        "decltypeSliced": ret_sliced(pfns["_parse_pqname_decltype_specifier"]),
        "arraySizeSliced": ret_sliced(pfns["_parse_array_type"]),
    }
    out = []
    out.append("-- GENERATED by vlib/extract.py from an `ast` scan of cxxheaderparser/parser.py — do not edit")
    out.append("namespace Cxx.Gen")
    out.append("/-! For every value whose delimiters are documented as omitted: does the call site")
    out.append("    apply `[1:-1]` to the collected token list? -/")
    for k, v in sites.items():
        out.append(f"def {k} : Bool := {lbool(bool(v))}")
    out.append("end Cxx.Gen")
    if write_if_changed(os.path.join(outdir, "Uses.lean"), "\n".join(out) + "\n"):
        info["changed"].append("Uses")
    info["value_sites"] = sites

    # ---------------- dataclass schemas (types.py, simple.py, tokfmt.py) -------------
    from cxxheaderparser import types as TY
    from cxxheaderparser import simple as SI

    def pyval_lean(v) -> str:
        if v is None:
            return ".none"
        if isinstance(v, bool):
            return f"(.bool {lbool(v)})"
        if isinstance(v, int):
            return f"(.int ({v}))"
        if isinstance(v, str):
            return f"(.str {lstr(v)})"
        if isinstance(v, list):
            return "(.list [" + ", ".join(pyval_lean(x) for x in v) + "])"
        if isinstance(v, dict):
            return "(.dict [" + ", ".join(f"({lstr(str(k))}, {pyval_lean(x)})" for k, x in v.items()) + "])"
        if dataclasses.is_dataclass(v):
            return "(.obj " + lstr(type(v).__name__) + " [" + ", ".join(
                f"({lstr(f.name)}, {pyval_lean(getattr(v, f.name))})" for f in dataclasses.fields(v)) + "])"
        return ".none"

    classes = []
    for mod in (TY, SI):
        for name in sorted(dir(mod)):
            obj = getattr(mod, name)
            if isinstance(obj, type) and dataclasses.is_dataclass(obj) and obj not in classes:
                classes.append(obj)
    out = []
    out.append("-- GENERATED by vlib/extract.py from dataclasses.fields of types.py / simple.py — do not edit")
    out.append("import CxxModel.Repr")
    out.append("namespace Cxx.Gen")
    out.append("open Cxx")
    out.append("def schema : Schema := [")
    ents = []
    schema_json = {}
    for c in classes:
        fs = []
        fj = []
        for f in dataclasses.fields(c):
            if f.default is not dataclasses.MISSING:
                d = "(some " + pyval_lean(f.default) + ")"
            elif f.default_factory is not dataclasses.MISSING:
                d = "(some " + pyval_lean(f.default_factory()) + ")"
            else:
                d = "none"
            fs.append(f"    {{ name := {lstr(f.name)}, repr := {lbool(f.repr)}, compare := {lbool(f.compare)}, default := {d} }}")
            fj.append(f.name)
        ents.append(f"  ({lstr(c.__name__)}, [\n" + ",\n".join(fs) + "])")
        schema_json[c.__name__] = fj
    out.append(",\n".join(ents))
    out.append("]")
    out.append("end Cxx.Gen")
    if write_if_changed(os.path.join(outdir, "Schema.lean"), "\n".join(out) + "\n"):
        info["changed"].append("Schema")
    info["schema"] = schema_json

    # ---------------- function fingerprints (for change-triggered escalation) ----
    fps = {}
    for fname in sorted(os.listdir(pkgdir)):
        if not fname.endswith(".py"):
            continue
        with open(os.path.join(pkgdir, fname), "r", encoding="utf-8") as fp:
            try:
                tree = ast.parse(fp.read())
            except SyntaxError:
                continue
        for node in tree.body:
            if isinstance(node, (ast.FunctionDef, ast.AsyncFunctionDef)):
                fps[f"{fname}:{node.name}"] = fn_fingerprint(node)
            elif isinstance(node, ast.ClassDef):
                for sub in node.body:
                    if isinstance(sub, (ast.FunctionDef, ast.AsyncFunctionDef)):
                        fps[f"{fname}:{node.name}.{sub.name}"] = fn_fingerprint(sub)
                    elif isinstance(sub, (ast.Assign, ast.AnnAssign, ast.AugAssign)):
                        k = f"{fname}:{node.name}.<attrs>"
                        fps[k] = hashlib.sha256((fps.get(k, "") + fn_fingerprint(sub)).encode()).hexdigest()[:16]
            elif isinstance(node, (ast.Assign, ast.AnnAssign, ast.AugAssign)):
                k = f"{fname}:<module>"
                fps[k] = hashlib.sha256((fps.get(k, "") + fn_fingerprint(node)).encode()).hexdigest()[:16]
    info["fingerprints"] = fps
    return info


if __name__ == "__main__":
    sys.path.insert(0, REPO)
    info = extract_all()
    if "--json" in sys.argv:
        json.dump(info, sys.stdout, indent=1, sort_keys=True)
    else:
        print("changed:", info["changed"], "rules:", info["n_rules"])
        print(info["rule_actions"])
        print(info["re_node_counts"])
